"""Orchestration for the varint runtime-monitoring checks.

build configurations -> driver binaries -> sharded runs -> parsed monitor
output -> known-findings matching -> evidence file + exit code.
"""
import concurrent.futures as cf
import fcntl
import glob
import hashlib
import json
import os
import re
import shutil
import subprocess
import sys
import time

VERIF = os.path.dirname(os.path.dirname(os.path.abspath(__file__)))
REPO = os.environ.get("VERIF_REPO", "/repo")
HARNESS = os.path.join(VERIF, "harness")
BUILD = os.path.join(VERIF, "build")
NCPU = os.cpu_count() or 4
GUARD = "MATTSTA_VARINT_VERIF"

WARN = ["-w"]
COMMON = ["-std=gnu11", "-D" + GUARD + "=1", "-I" + os.path.join(REPO, "src"), "-I" + HARNESS]


def _cpu_has(*flags):
    try:
        txt = open("/proc/cpuinfo").read()
    except OSError:
        return False
    m = re.search(r"^flags\s*:\s*(.*)$", txt, re.M)
    have = set(m.group(1).split()) if m else set()
    return all(f in have for f in flags)


HAVE_NATIVE = _cpu_has("avx2", "avx512vl", "f16c")

SAN_FATAL = "-fno-sanitize-recover=bounds,unreachable,null,return,vla-bound"
CFGS = {
    "rel": dict(cc="gcc", cflags=["-O2", "-g", "-DNDEBUG"], ld=[]),
    "dbg": dict(cc="gcc", cflags=["-O0", "-g"], ld=[]),
    "asan": dict(cc="gcc", cflags=["-O1", "-g", "-fno-omit-frame-pointer",
                                   "-fsanitize=address,undefined", SAN_FATAL], ld=["-fsanitize=address,undefined"]),
    "asanR": dict(cc="gcc", cflags=["-O1", "-g", "-DNDEBUG", "-fno-omit-frame-pointer",
                                    "-fsanitize=address,undefined", SAN_FATAL], ld=["-fsanitize=address,undefined"]),
    "native": dict(cc="gcc", cflags=["-O3", "-g", "-DNDEBUG", "-march=native"], ld=[]),
    "clang": dict(cc="clang-14", cflags=["-O2", "-g", "-DNDEBUG"], ld=[]),
    "msan": dict(cc="clang-14", cflags=["-O1", "-g", "-fno-omit-frame-pointer", "-fsanitize=memory",
                                        "-fsanitize-memory-track-origins=2"], ld=["-fsanitize=memory"]),
    "tsan": dict(cc="gcc", cflags=["-O1", "-g", "-fsanitize=thread"], ld=["-fsanitize=thread"]),
    "tsanN": dict(cc="gcc", cflags=["-O2", "-g", "-DNDEBUG", "-march=native", "-fsanitize=thread"], ld=["-fsanitize=thread"]),
    "sse41": dict(cc="gcc", cflags=["-O2", "-g", "-DNDEBUG", "-msse4.1"], ld=[]),
}

SAN_ENV = {
    "ASAN_OPTIONS": "abort_on_error=1:detect_leaks=0:allocator_may_return_null=1:max_allocation_size_mb=4096:detect_stack_use_after_return=0:handle_abort=0",
    "UBSAN_OPTIONS": "print_stacktrace=0:abort_on_error=1",
    "MSAN_OPTIONS": "abort_on_error=1:exit_code=86",
    "TSAN_OPTIONS": "halt_on_error=0:exitcode=0",
}


def log(*a):
    print("[check]", *a, file=sys.stderr, flush=True)


def sha(*parts):
    h = hashlib.sha1()
    for p in parts:
        if isinstance(p, str):
            p = p.encode()
        h.update(p)
        h.update(b"\0")
    return h.hexdigest()[:14]


def lib_sources():
    srcs = sorted(glob.glob(os.path.join(REPO, "src", "*.c")))
    return [s for s in srcs if not s.endswith("Test.c") and os.path.basename(s) != "varintCompare.c"]


def tree_hash(paths):
    h = hashlib.sha1()
    for p in sorted(paths):
        h.update(p.encode())
        try:
            with open(p, "rb") as f:
                h.update(f.read())
        except OSError:
            h.update(b"<missing>")
    return h.hexdigest()[:14]


def repo_hash():
    return tree_hash(glob.glob(os.path.join(REPO, "src", "*.[ch]")))


def harness_hash():
    return tree_hash(glob.glob(os.path.join(HARNESS, "*")))


class BuildError(Exception):
    pass


def _run_cc(cmd):
    p = subprocess.run(cmd, stdout=subprocess.PIPE, stderr=subprocess.STDOUT, text=True)
    if p.returncode != 0:
        raise BuildError("command failed: %s\n%s" % (" ".join(cmd), p.stdout[-6000:]))


_built = {}


def build(cfg, driver, extra_src=(), extra_cflags=(), extra_ld=()):
    """Compile the library (from REPO/src) and one driver for cfg; returns exe path."""
    memo = (cfg, driver, tuple(extra_src), tuple(extra_cflags), tuple(extra_ld))
    if memo in _built:
        return _built[memo]
    c = CFGS[cfg]
    rh = repo_hash()
    repo_tag = sha(os.path.abspath(REPO))[:6]
    cdir = os.path.join(BUILD, repo_tag, cfg)
    os.makedirs(cdir, exist_ok=True)
    flags = c["cflags"] + COMMON + WARN
    libkey = sha(rh, " ".join(flags), c["cc"])
    lib = os.path.join(cdir, "libvarint-%s.a" % libkey)
    with open(os.path.join(cdir, ".lock"), "w") as lk:
        fcntl.flock(lk, fcntl.LOCK_EX)
        if not os.path.exists(lib):
            for old in glob.glob(os.path.join(cdir, "libvarint-*.a")) + glob.glob(os.path.join(cdir, "obj-*")):
                shutil.rmtree(old, ignore_errors=True) if os.path.isdir(old) else os.unlink(old)
            for old in glob.glob(os.path.join(cdir, "drv_*")):
                os.unlink(old)
            odir = os.path.join(cdir, "obj-" + libkey)
            os.makedirs(odir, exist_ok=True)
            t0 = time.time()
            jobs = []
            objs = []
            for s in lib_sources():
                o = os.path.join(odir, os.path.basename(s)[:-2] + ".o")
                objs.append(o)
                jobs.append([c["cc"]] + flags + ["-c", s, "-o", o])
            with cf.ThreadPoolExecutor(NCPU) as ex:
                list(ex.map(_run_cc, jobs))
            tmp = lib + ".tmp"
            _run_cc(["ar", "rcs", tmp] + objs)
            os.rename(tmp, lib)
            shutil.rmtree(odir, ignore_errors=True)
            log("built library cfg=%s (%d files, %.1fs)" % (cfg, len(objs), time.time() - t0))
        dkey = sha(libkey, harness_hash(), " ".join(extra_src), " ".join(extra_cflags), " ".join(extra_ld))
        variant = sha(" ".join(extra_src), " ".join(extra_cflags), " ".join(extra_ld))[:5]
        exe = os.path.join(cdir, "%s-%s-%s" % (driver, variant, dkey))
        if not os.path.exists(exe):
            for old in glob.glob(os.path.join(cdir, "%s-%s-*" % (driver, variant))):
                os.unlink(old)
            t0 = time.time()
            srcs = [os.path.join(HARNESS, driver + ".c")] + [os.path.join(HARNESS, s) for s in extra_src]
            tmp = exe + ".tmp%d" % os.getpid()
            _run_cc([c["cc"]] + flags + list(extra_cflags) + srcs + [lib] + c["ld"] + list(extra_ld) +
                    ["-lm", "-lpthread", "-o", tmp])
            os.rename(tmp, exe)
            log("built %s cfg=%s (%.1fs)" % (driver, cfg, time.time() - t0))
    _built[memo] = exe
    return exe


# --------------------------------------------------------------------------
# running drivers


class ShardResult:
    def __init__(self):
        self.viols = []      # (key, case, detail)
        self.crashes = []    # (case, kind, ctx, sub, stderr_tail)
        self.stats = {}
        self.maxes = {}
        self.digests = {}
        self.samples = []
        self.done = None
        self.rc = None
        self.timeout = False
        self.stderr = ""
        self.ubsan = set()
        self.reports = []    # sanitizer report blocks (tsan / msan)
        self.sites = set()   # allocation call sites at which a fault was injected


_UBSAN_RE = re.compile(r"^(\S+?):(\d+):\d+: runtime error: (.*)$", re.M)


def _parse(out, err, res):
    for line in out.splitlines():
        if line.startswith("VIOL "):
            m = re.match(r"VIOL key=(\S+) case=(\d+) detail=(.*)$", line)
            if m:
                res.viols.append((m.group(1), int(m.group(2)), m.group(3)))
        elif line.startswith("CRASH "):
            m = re.match(r"CRASH case=(\d+) kind=(\S+) ctx=(\S*) sub=(.*)$", line)
            if m:
                res.crashes.append([int(m.group(1)), m.group(2), m.group(3), m.group(4), ""])
        elif line.startswith("STAT "):
            _, k, v = line.split(" ", 2)
            res.stats[k] = res.stats.get(k, 0) + int(v)
        elif line.startswith("MAX "):
            _, k, v = line.split(" ", 2)
            res.maxes[k] = max(res.maxes.get(k, 0), int(v))
        elif line.startswith("DIGEST "):
            _, k, v = line.split(" ", 2)
            res.digests[k] = v
        elif line.startswith("SAMPLE "):
            try:
                res.samples.append(json.loads(line[7:]))
            except ValueError:
                res.samples.append(line[7:])
        elif line.startswith("SITE "):
            res.sites.add(line.split()[1])
        elif line.startswith("DONE "):
            res.done = int(line.split("=")[1])
    _parse_race_reports(err, res)
    for m in _UBSAN_RE.finditer(err):
        f = os.path.basename(m.group(1))
        msg = re.sub(r"0x[0-9a-f]+", "ADDR", m.group(3))
        msg = re.sub(r"-?\d{3,}", "N", msg)
        res.ubsan.add("%s:%s %s" % (f, m.group(2), msg[:90]))


def _parse_race_reports(err, res):
    """ThreadSanitizer / helgrind report blocks -> res.reports [(tool, repo_funcs, all_funcs, head)]"""
    src = os.path.join(os.path.abspath(REPO), "src") + "/"
    if "ThreadSanitizer" in err:
        for blk in err.split("WARNING: ThreadSanitizer:")[1:]:
            blk = blk.split("SUMMARY: ThreadSanitizer")[0]
            kind = blk.strip().splitlines()[0][:60] if blk.strip() else "?"
            frames = re.findall(r"#\d+ (\S+) (\S+?):(\d+)", blk)
            repo_funcs, allf = [], []
            for fn, path, _ln in frames:
                allf.append(fn)
                if path.startswith(src) and fn not in repo_funcs:
                    repo_funcs.append(fn)
            res.reports.append(("tsan", kind, tuple(repo_funcs[:2]), tuple(allf[:6])))
    if "Possible data race" in err:
        for blk in err.split("Possible data race")[1:]:
            blk = blk.split("----------------------------------------------------------------")[0]
            frames = re.findall(r"(?:at|by) 0x[0-9A-Fa-f]+: (\S+) \((\S+?):(\d+)\)", blk)
            srcfiles = {os.path.basename(f) for f in glob.glob(src + "*.[ch]")}
            repo_funcs, allf = [], []
            for fn, fname, _ln in frames:
                allf.append(fn)
                if fname in srcfiles and fn not in repo_funcs:
                    repo_funcs.append(fn)
            res.reports.append(("helgrind", "data race", tuple(repo_funcs[:2]), tuple(allf[:6])))


def run_one(exe, args, timeout, env=None, wrapper=None):
    """Run one driver process to completion, restarting after a crashed case."""
    res = ShardResult()
    e = dict(os.environ)
    e.update(SAN_ENV)
    if env:
        e.update(env)
    frm = None
    restarts = 0
    hangs = 0
    while True:
        a = list(args)
        if frm is not None:
            a += ["--from", str(frm)]
        cmd = (wrapper or []) + [exe] + a
        try:
            p = subprocess.run(cmd, stdout=subprocess.PIPE, stderr=subprocess.PIPE, timeout=timeout, env=e)
            out, err, rc = p.stdout.decode("utf-8", "replace"), p.stderr.decode("utf-8", "replace"), p.returncode
        except subprocess.TimeoutExpired as t:
            out = (t.stdout or b"").decode("utf-8", "replace")
            err = (t.stderr or b"").decode("utf-8", "replace")
            rc = -999
            res.timeout = True
        ncr = len(res.crashes)
        _parse(out, err, res)
        res.rc = rc
        res.stderr = err[-20000:]
        if res.timeout:
            return res
        if len(res.crashes) > ncr:
            # keep only one record per crashed case, attach the sanitizer summary
            first = res.crashes[ncr]
            del res.crashes[ncr + 1:]
            tail = ""
            m = re.search(r"^(==\d+==ERROR: .*|SUMMARY: .*|.*Assertion .* failed.*|.*runtime error:.*)$", err, re.M)
            if m:
                tail = m.group(1)[:300]
            sm = re.search(r"^SUMMARY: (.*)$", err, re.M)
            if sm:
                tail += " | " + sm.group(1)[:200]
            first[4] = tail
            if first[1] == "hang":
                hangs += 1
            if first[1] == "hang" and "--only" not in a and first[0] >= 0 and hangs == 1:
                # a watchdog fired: re-run that one case alone before believing it (loaded machine)
                try:
                    p2 = subprocess.run((wrapper or []) + [exe] + list(args) + ["--only", str(first[0])], stdout=subprocess.PIPE,
                                        stderr=subprocess.PIPE, timeout=timeout, env=e)
                    if b"kind=hang" not in p2.stdout:
                        del res.crashes[ncr]
                        hangs -= 1
                        res.stats["watchdog_fired_but_case_completed_on_rerun"] = res.stats.get("watchdog_fired_but_case_completed_on_rerun", 0) + 1
                except subprocess.TimeoutExpired:
                    pass
            restarts += 1
            if restarts > 400 or "--only" in a or hangs >= 3:
                # (three confirmed hangs: the shard is abandoned, its violations are already recorded)
                return res
            frm = first[0] + 1
            continue
        if rc != 0 and res.done is None and rc not in (-9, 5):
            # died without a CRASH record (e.g. MSan exit code).  SIGKILL cannot be raised by the code under test (the
            # kernel's out-of-memory killer or an operator sent it) and exit code 5 is the harness reporting that it
            # could not get memory for its own buffers: both leave the shard without DONE, which is inconclusive.
            res.crashes.append([-1, "exit%d" % rc, "?", "", err[-400:].replace("\n", " | ")])
        return res


class Run:
    """Collects shard results of one (driver, cfg, mode) workload."""

    def __init__(self, name, cfg, driver, mode, exe, base_args, seed):
        self.name, self.cfg, self.driver, self.mode, self.exe = name, cfg, driver, mode, exe
        self.base_args, self.seed = base_args, seed
        self.shards = {}
        self.wall = 0.0


_PROC_SEM = __import__("threading").BoundedSemaphore(NCPU)


def _exec_workload(seed, name, cfg, driver, mode, count, nshards=NCPU, shards=None, params=None, sparam=None,
                   timeout=900, env=None, build_kw=None, wrapper=None):
    exe = build(cfg, driver, **(build_kw or {}))
    base = ["--mode", mode, "--seed", str(seed), "--nshards", str(nshards), "--count", str(count)]
    for i, v in enumerate(params or []):
        base += ["--p%d" % i, str(v)]
    if sparam:
        base += ["--sparam", sparam]
    run = Run(name, cfg, driver, mode, exe, base, seed)
    run.build_kw = build_kw or {}
    run.wrapper = wrapper
    run.env = env
    shard_ids = list(range(nshards)) if shards is None else list(shards)
    t0 = time.time()

    def one(s):
        with _PROC_SEM:
            r = run_one(exe, base + ["--shard", str(s)], timeout, env, wrapper)
            if r.timeout:
                log("timeout %s shard %d; retrying once" % (name, s))
                r = run_one(exe, base + ["--shard", str(s)], timeout, env, wrapper)
            return r

    with cf.ThreadPoolExecutor(min(NCPU, max(1, len(shard_ids)))) as ex:
        for s, r in zip(shard_ids, ex.map(one, shard_ids)):
            run.shards[s] = r
    run.wall = time.time() - t0
    return run


def run_workload(check, name, cfg, driver, mode, count, **kw):
    """Build + run `driver --mode mode` over the given shards of an nshards split."""
    run = _exec_workload(check.seed, name, cfg, driver, mode, count, **kw)
    check.add_run(run)
    return run


def run_parallel(check, specs):
    """specs: list of (name, cfg, driver, mode, count, kwargs). Builds sequentially, runs concurrently
    (total concurrent driver processes capped at NCPU), results added in the given order."""
    for sp in specs:
        build(sp[1], sp[2], **(sp[5].get("build_kw") or {}))
    with cf.ThreadPoolExecutor(max(1, len(specs))) as ex:
        futs = [ex.submit(_exec_workload, check.seed, sp[0], sp[1], sp[2], sp[3], sp[4], **sp[5]) for sp in specs]
        runs = [f.result() for f in futs]
    for r in runs:
        check.add_run(r)
    return runs


# --------------------------------------------------------------------------


def load_known():
    p = os.path.join(VERIF, "known_findings.json")
    try:
        return json.load(open(p)).get("findings", [])
    except OSError:
        return []


class Check:
    def __init__(self, prop, tier, level="exploration"):
        self.prop, self.tier, self.level = prop, tier, level
        self.seed = int(os.environ.get("VERIF_SEED", "1"))
        self.t0 = time.time()
        self.runs = []
        self.viol = {}          # key -> dict(count, first replay info)
        self.inconclusive = []
        self.stats = {}
        self._maxes = {}
        self.pending = []
        self.samples = []
        self.ubsan = set()
        self.notes = []
        self.must = {}
        self._extra = {}
        self.assumptions = []
        self.rule = ""
        self.known = [f for f in load_known() if f.get("property") == prop]

    # -- deferred, concurrent execution of workloads ------------------------
    class _Lazy:
        def __init__(self):
            self.run = None

    def spec(self, name, cfg, driver, mode, count, **kw):
        # wall-clock watchdog only (verdicts are bounded by case counts): generous, and much larger in the thorough tier
        kw["timeout"] = max(kw.get("timeout", 900), 900) * (1 if self.tier == "quick" else 16)
        h = Check._Lazy()
        self.pending.append(((name, cfg, driver, mode, count, kw), h))
        return h

    def go(self):
        if not self.pending:
            return
        pend, self.pending = self.pending, []
        runs = run_parallel(self, [p[0] for p in pend])
        for (sp, h), r in zip(pend, runs):
            h.run = r

    @property
    def maxes(self):
        self.go()
        return self._maxes

    @property
    def extra(self):
        self.go()
        return self._extra

    # -- collecting ---------------------------------------------------------
    def violation(self, key, info):
        v = self.viol.setdefault(key, dict(count=0, info=info))
        v["count"] += 1

    def add_run(self, run):
        self.runs.append(run)
        for s, r in sorted(run.shards.items()):
            common = dict(driver=run.driver, cfg=run.cfg, mode=run.mode, seed=run.seed, shard=s,
                          args=run.base_args + ["--shard", str(s)], build_kw=run.build_kw,
                          wrapper=run.wrapper, env=run.env)
            for key, case, detail in r.viols:
                self.violation(key, dict(common, case=case, detail=detail))
            for case, kind, ctx, sub, tail in r.crashes:
                k = "%s:%s:crash-%s" % (self.prop, ctx, "asan" if kind == "asan" else kind)
                self.violation(k, dict(common, case=case, detail="%s %s %s" % (kind, sub, tail)))
            if r.timeout:
                self.inconclusive.append("%s shard %d timed out twice" % (run.name, s))
            elif r.done is None and not r.crashes:
                self.inconclusive.append("%s shard %d ended without DONE (rc=%s) %s" % (run.name, s, r.rc, r.stderr[-300:]))
            if r.done:
                self.stats["cases"] = self.stats.get("cases", 0) + r.done
                self._extra.setdefault("cases_per_cfg", {})
                self._extra["cases_per_cfg"][run.cfg] = self._extra["cases_per_cfg"].get(run.cfg, 0) + r.done
            for k, v in r.stats.items():
                self.stats[k] = self.stats.get(k, 0) + v
                ck = "%s@%s" % (k, run.cfg)
                self._extra.setdefault("per_cfg", {})
                self._extra["per_cfg"][ck] = self._extra["per_cfg"].get(ck, 0) + v
            for k, v in r.maxes.items():
                self._maxes[k] = max(self._maxes.get(k, 0), v)
            if len(self.samples) < 12:
                self.samples += r.samples[: max(1, 12 - len(self.samples))][:3]
            self.ubsan |= r.ubsan

    def compare_digests(self, runs, what="results"):
        """Same seed, same shard, same count: digests must agree across configurations."""
        self.go()
        runs = [r.run if isinstance(r, Check._Lazy) else r for r in runs]
        ref = runs[0]
        n = 0
        for other in runs[1:]:
            for s, r in other.shards.items():
                if s not in ref.shards:
                    continue
                a, b = ref.shards[s], r
                if a.done is None or b.done is None or a.crashes or b.crashes:
                    continue
                for k, v in b.digests.items():
                    if k in a.digests:
                        n += 1
                        if a.digests[k] != v:
                            key = "%s:%s:%s:config-divergence" % (self.prop, other.driver + "/" + other.mode, k)
                            self.violation(key, dict(driver=other.driver, cfg=other.cfg, mode=other.mode,
                                                     seed=other.seed, shard=s, args=other.base_args + ["--shard", str(s)],
                                                     build_kw=other.build_kw, case=-1,
                                                     detail="digest %s differs between %s (%s) and %s (%s) for %s" %
                                                     (k, ref.cfg, a.digests[k], other.cfg, v, what)))
        self.stats["digest_comparisons"] = self.stats.get("digest_comparisons", 0) + n
        return n

    def require(self, name, seen, need, why=""):
        """must-observe: a run that did not observe this is inconclusive."""
        self.go()
        self.must[name] = dict(seen=int(seen), required=int(need))
        if seen < need:
            self.inconclusive.append("must-observe %s: saw %d, need %d %s" % (name, seen, need, why))

    def stat(self, k):
        self.go()
        return self.stats.get(k, 0)

    # -- finishing ----------------------------------------------------------
    def finish(self, evaluations, distinct_nontrivial, rule, extra_cov=None):
        self.go()
        wall = time.time() - self.t0
        os.makedirs(os.path.join(VERIF, "replays"), exist_ok=True)
        known_keys = {f["key"]: f for f in self.known if f.get("status") == "known"}
        lines = []
        new = 0
        known_hit = []
        for key, v in sorted(self.viol.items()):
            if key in known_keys:
                known_hit.append(key)
                continue
            new += 1
            rp = os.path.join(VERIF, "replays", "%s-%s.json" % (self.prop, sha(key)[:10]))
            info = dict(v["info"])
            info.update(property=self.prop, key=key, occurrences=v["count"], tier=self.tier)
            with open(rp, "w") as f:
                json.dump(info, f, indent=1)
            lines.append("VIOLATION property=%s replay=%s" % (self.prop, rp))
            log("violation key=%s n=%d detail=%s" % (key, v["count"], str(v["info"].get("detail"))[:300]))
        for key in known_hit:
            print("KNOWN-FINDING: property=%s %s (%s)" % (self.prop, key, known_keys[key].get("what", "")))
        cov = dict(evaluations=int(evaluations), distinct_nontrivial=int(distinct_nontrivial), rule=rule,
                   samples=self.samples[:12] or ["(no samples emitted)"],
                   counters=dict(sorted(self.stats.items())), maxima=dict(sorted(self.maxes.items())),
                   must_observe=self.must,
                   configurations=sorted({r.cfg for r in self.runs}),
                   workloads=[dict(name=r.name, cfg=r.cfg, driver=r.driver, mode=r.mode, shards=len(r.shards),
                                   wall_s=round(r.wall, 1)) for r in self.runs],
                   ubsan_logged_not_verdict=sorted(self.ubsan)[:60],
                   exhaustive=False)
        cov.update(self._extra)
        if extra_cov:
            cov.update(extra_cov)
        ev = dict(property_id=self.prop, tier=self.tier, seed=self.seed, level=self.level, coverage=cov,
                  assumptions=self.assumptions, wall_s=round(wall, 2), violations=new,
                  known_findings_reproduced=known_hit, inconclusive=self.inconclusive, notes=self.notes,
                  repo=REPO, repo_src_hash=repo_hash())
        os.makedirs(os.path.join(VERIF, "evidence"), exist_ok=True)
        with open(os.path.join(VERIF, "evidence", self.prop + ".json"), "w") as f:
            json.dump(ev, f, indent=1)
        for l in lines:
            print(l)
        if new:
            print("RESULT %s: %d violation key(s)" % (self.prop, new))
            sys.exit(1)
        if self.inconclusive:
            for i in self.inconclusive:
                print("INCONCLUSIVE %s: %s" % (self.prop, i))
            sys.exit(2)
        print("RESULT %s: held on %d evaluations (%d distinct non-trivial), %.1fs" %
              (self.prop, evaluations, distinct_nontrivial, wall))
        sys.exit(0)


def replay(path):
    info = json.load(open(path))
    exe = build(info["cfg"], info["driver"], **(info.get("build_kw") or {}))
    args = list(info["args"])
    if info.get("case", -1) >= 0:
        args += ["--only", str(info["case"])]
    args += ["--verbose"]
    e = dict(os.environ)
    e.update(SAN_ENV)
    if info.get("env"):
        e.update(info["env"])
    cmd = (info.get("wrapper") or []) + [exe] + args
    print("replay:", " ".join(cmd))
    p = subprocess.run(cmd, env=e, stdout=subprocess.PIPE, stderr=subprocess.STDOUT, text=True, errors="replace")
    print(p.stdout[-8000:])
    bad = ("VIOL " in p.stdout) or ("CRASH " in p.stdout) or p.returncode not in (0,)
    print("replay verdict:", "VIOLATION reproduced" if bad else "no violation on this tree")
    return 1 if bad else 0
