"""Per-property check definitions: workloads, must-observe rules, evidence."""
from . import core
from .core import Check, run_workload, run_parallel, NCPU, HAVE_NATIVE

Q, T = "quick", "thorough"


def sz(tier, quick, thorough):
    return quick if tier == Q else thorough


def per_shard(total, nshards=NCPU):
    return (total + nshards - 1) // nshards


def other_builds(c, name, driver, mode, count, shards=(12, 13), **kw):
    """the same workload on a second compiler and on the SIMD-enabled build: defects that exist in one
    build configuration only (#ifdef NDEBUG / __AVX2__ / __clang__ / optimisation level)"""
    c.spec(name + "-clang", "clang", driver, mode, count, shards=list(shards), **kw)
    if HAVE_NATIVE:
        c.spec(name + "-native", "native", driver, mode, count, shards=list(shards), **kw)


# --------------------------------------------------------------------------- C01
def C01(tier):
    c = Check("C01", tier)
    E = sz(tier, 1 << 20, 1 << 26)
    samples = sz(tier, 2_000_000, 60_000_000)
    count = per_shard(E + samples)
    p = [E]
    runs = [c.spec("scalar-rel", "rel", "drv_scalar", "c01", count, params=p)]
    few = sz(tier, [0, 5, 10, 15], [0, 5])
    runs.append(c.spec("scalar-dbg", "dbg", "drv_scalar", "c01", count, shards=few, params=p))
    runs.append(c.spec("scalar-asan", "asan", "drv_scalar", "c01", count, shards=few, params=p))
    runs.append(c.spec("scalar-clang", "clang", "drv_scalar", "c01", count, shards=sz(tier, few, list(range(8))), params=p))
    if HAVE_NATIVE:
        runs.append(c.spec("scalar-native", "native", "drv_scalar", "c01", count, shards=sz(tier, few, list(range(8))), params=p))
    else:
        c.notes.append("native (-march=native) configuration skipped: cpu lacks avx2+avx512vl+f16c")
    c.compare_digests(runs, "encoded bytes of every value")
    # every 32-bit value through the uint32_t entry points (all 2^32 in the thorough tier, 2^26 in the quick tier)
    c.spec("scalar-all32-rel", "rel", "drv_scalar", "c01x32", 1, params=[sz(tier, 26, 32)])
    # the two documented configuration knobs of the split-full families, each alone (asymmetric builds)
    for knob in ("VARINT_SPLIT_FULL_USE_MAXIMUM_RANGE", "VARINT_SPLIT_FULL_NO_ZERO_USE_MAXIMUM_RANGE"):
        kw = dict(extra_cflags=("-D" + knob,))
        c.spec("scalar-rel-" + knob[13:], "rel", "drv_scalar", "c01", count, shards=[1, 6], params=p, build_kw=kw)
        c.spec("scalar-asan-" + knob[13:], "asan", "drv_scalar", "c01", count, shards=[2], params=p, build_kw=kw)
    fams = ["tagged", "chained", "chainedSimple", "split", "splitFull", "splitFullNoZero", "splitFull16"]
    for f in fams:
        lo = 2 if f == "splitFull16" else 1
        for L in range(lo, 10):
            c.require("lenclass.%s.%d" % (f, L), c.stat("lenclass.%s.%d" % (f, L)), 1000)
    for f in ("externalLE", "externalBE"):
        for L in range(1, 9):
            c.require("lenclass.%s.%d" % (f, L), c.stat("lenclass.%s.%d" % (f, L)), 1000)
            c.require("fixedwidth.%s.%d" % (f, L), c.stat("fixedwidth.%s.%d" % (f, L)), 1000)
    for W in range(1, 10):
        c.require("fixedwidth.tagged.%d" % W, c.stat("fixedwidth.tagged.%d" % W), 1000)
    for a in range(16):
        c.require("align.%d" % a, c.stat("align.%d" % a), 1000)
    c.require("signed_negative_cases", c.stat("c01_signed_negative_cases"), 10000)
    c.require("constant_argument_checks", c.stat("c01_constant_argument_checks"), 100)
    c.require("exhaustive_32bit_values", c.stat("c01_exhaustive_32bit_values"), 1 << sz(tier, 26, 32))
    c.assumptions = ["x86-64 little-endian host; the big-endian host branch of varintExternal*.c is not executable here",
                     "fixed widths exercised are the legal ones: external any width >= minimal; tagged minimal, or >= 4 and >= minimal"]
    c.finish(c.stat("cases"), c.extra["per_cfg"].get("distinct_cases@rel", 0),
             "values: 0..E-1 enumerated (E=%d) plus boundary-biased mixture samples; every value goes through every "
             "family/entry point/legal fixed width at alignment (index mod 16); distinct = distinct value, "
             "non-trivial = value >= 64 (multi-byte in at least one family)" % E)


# --------------------------------------------------------------------------- C04
def C04(tier):
    c = Check("C04", tier)
    E = sz(tier, 1 << 22, 1 << 26)
    samples = sz(tier, 8_000_000, 60_000_000)
    count = per_shard(E + samples)
    p = [E]
    c.spec("format-rel", "rel", "drv_scalar", "c04", count, params=p, env={"VERIF_REPO": core.REPO})
    c.spec("format-asan", "asan", "drv_scalar", "c04", count, shards=[0, 7], params=p, env={"VERIF_REPO": core.REPO})
    c.spec("format-dbg", "dbg", "drv_scalar", "c04", count, shards=[0, 3], params=p, env={"VERIF_REPO": core.REPO})
    for knob in ("VARINT_SPLIT_FULL_USE_MAXIMUM_RANGE", "VARINT_SPLIT_FULL_NO_ZERO_USE_MAXIMUM_RANGE"):
        c.spec("format-rel-" + knob[13:], "rel", "drv_scalar", "c04", count, shards=[1, 6], params=p, env={"VERIF_REPO": core.REPO},
               build_kw=dict(extra_cflags=("-D" + knob,)))
    other_builds(c, "format", "drv_scalar", "c04", count, shards=(0, 5), params=p, env={"VERIF_REPO": core.REPO})
    fams = ["tagged", "chained", "chainedSimple", "split", "splitFull", "splitFullNoZero", "splitFull16"]
    for f in fams:
        lo = 2 if f == "splitFull16" else 1
        for L in range(lo, 10):
            c.require("lenclass.%s.%d" % (f, L), c.stat("lenclass.%s.%d" % (f, L)), 1000)
    c.require("per_length_maxima_checked", c.stat("c04_per_length_maxima_checked"), 60)
    c.require("readme_cells_checked", c.stat("c04_readme_cells_checked"), 30)
    c.require("constants_checked", c.stat("c04_constants_checked"), 20)
    c.require("elias_codewords", c.stat("c04_elias_codewords"), 100000)
    c.require("length_boundaries_crossed", c.stat("c04_length_boundaries_crossed"), 1000)
    c.assumptions = ["reference encoders in harness/ref_scalar.h are written from the documented formats and share no code with the library",
                     "reversed split forms are checked under C01 only (the documented layouts are the forward ones)"]
    c.finish(c.stat("cases"), c.extra["per_cfg"].get("distinct_cases@rel", 0),
             "same value stream as C01 (0..E-1 enumerated, E=%d, plus boundary-biased samples); each value: library bytes vs "
             "independent reference for every byte-emitting entry point of every family, reference bytes decoded by every "
             "library decoder, len(v)<=len(v+1), zig-zag, Elias gamma/delta code words; plus per-length maxima vs header "
             "constants and README tables; non-trivial = value >= 64" % E)


# --------------------------------------------------------------------------- C05
def C05(tier):
    c = Check("C05", tier)
    E = sz(tier, 1 << 20, 1 << 26)
    mix = sz(tier, 2_000_000, 12_000_000)
    K = sz(tier, 4096, 16384)
    count = per_shard(E + mix)
    p = [E, K]
    c.spec("order-rel", "rel", "drv_scalar", "c05", count, params=p)
    c.spec("order-asan", "asan", "drv_scalar", "c05", count, shards=[1, 9], params=p)
    c.spec("order-dbg", "dbg", "drv_scalar", "c05", count, shards=[2], params=p)
    other_builds(c, "order", "drv_scalar", "c05", count, shards=(3, 4), params=p)
    c.require("perturbation_pairs", c.stat("c05_perturbation_pairs"), 10000)
    c.require("scalar_sorts", c.stat("c05_scalar_sorts"), 100)
    c.require("tuple_sorts", c.stat("c05_tuple_sorts"), 300)
    c.assumptions = ["memcmp over min(len_a,len_b) bytes is the comparison a caller performs; ties are impossible for distinct values because the code is prefix-free (checked)"]
    c.finish(c.stat("c05_pairs") + c.stat("c05_scalar_sorts") + c.stat("c05_tuple_sorts"), c.extra["per_cfg"].get("c05_nontrivial_pairs@rel", 0),
             "pairs: (v,v+1),(v+1,v),(v,v) for v in 0..E-1 (E=%d) and boundary-biased v; random pairs; pairs whose encodings "
             "differ in exactly one payload byte; memcmp-sorts of K=%d scalar keys and 2-/3-/4-tuples (each sort certifies "
             "K(K-1)/2 pairs, counted separately in pairs_certified_by_sorts); non-trivial = the two keys differ in length or "
             "in a non-final byte" % (E, K))


# --------------------------------------------------------------------------- C12
def C12(tier):
    c = Check("C12", tier)
    n = sz(tier, 16_000_000, 200_000_000)
    count = per_shard(n)
    c.spec("add-rel", "rel", "drv_scalar", "c12", count)
    c.spec("add-asan", "asan", "drv_scalar", "c12", count, shards=sz(tier, [0, 1, 2, 3], [0, 1]))
    c.spec("add-dbg", "dbg", "drv_scalar", "c12", count, shards=[4])
    c.spec("add-clang", "clang", "drv_scalar", "c12", count, shards=[5, 6])
    for f in ("taggedNoGrow", "externalNoGrow"):
        for o in ("overflow", "refused", "samewidth", "widthchanged"):
            c.require("outcome.%s.%s" % (f, o), c.stat("outcome.%s.%s" % (f, o)), 10000)
    for f in ("taggedGrow", "externalGrow"):
        for o in ("overflow", "samewidth", "widthchanged"):
            c.require("outcome.%s.%s" % (f, o), c.stat("outcome.%s.%s" % (f, o)), 10000)
    c.assumptions = ["stored values are read as signed 64-bit (the API's contract); the slot of a no-grow call is exactly its current width "
                     "(heap block under ASan, guard bytes elsewhere)"]
    c.finish(c.stat("c12_calls"), c.extra["per_cfg"].get("distinct_nontrivial_triples@rel", 0),
             "(stored value, slot width, amount) triples: stored at width boundaries +-2 and mixture; amounts +-1, +-2^k, "
             "boundary-stored, INT64_MIN/MAX, overflow edges, random; slot = minimal width or a legal wider fixed width; each "
             "triple runs tagged/external x NoGrow/Grow against an __int128 model; non-trivial = overflow, refused or width change; "
             "distinct counted on the rel configuration only")


# --------------------------------------------------------------------------- array codecs
ARRAY_CODECS = ["delta.signed", "delta.unsigned", "for", "for.preanalysed", "for.nullmeta", "for.batch", "for.batchenc-scalardec",
                "pfor.90", "pfor.95", "pfor.99", "pfor.100", "pfor.40", "group", "group.putget", "dict", "dict.into", "dict.withdict", "rle", "rle.maxsize",
                "rle.header", "elias.gamma", "elias.delta", "bp128.32", "bp128.64", "bp128.delta32", "bp128.delta64"]
ADAPTIVE_CODECS = ["adaptive.auto", "adaptive.DELTA", "adaptive.FOR", "adaptive.PFOR", "adaptive.DICT", "adaptive.BITMAP", "adaptive.TAGGED"]


def C02(tier):
    c = Check("C02", tier)
    n = sz(tier, 24 * 40_000, 24 * 600_000)
    count = per_shard(n)
    p = [4097, sz(tier, 1500, 1500), 0, sz(tier, 6, 24)]  # p3: the first cases of every shard are arrays of > 2^20 elements
    runs = [c.spec("array-rel", "rel", "drv_array", "c02", count, params=p)]
    if HAVE_NATIVE:
        runs.append(c.spec("array-native", "native", "drv_array", "c02", count, params=p))
    else:
        c.notes.append("SIMD (-march=native) configuration skipped: cpu lacks avx2+avx512vl")
    runs.append(c.spec("array-asan", "asan", "drv_array", "c02", count, shards=sz(tier, [0, 1, 2, 3], [0, 1, 2, 3]), params=p))
    runs.append(c.spec("array-dbg", "dbg", "drv_array", "c02", count, shards=[4, 5], params=p))
    runs.append(c.spec("array-clang", "clang", "drv_array", "c02", count, shards=[6, 7], params=p))
    runs.append(c.spec("array-sse41", "sse41", "drv_array", "c02", count, shards=[8, 9, 10, 11], params=p))
    c.compare_digests(runs, "encoded bytes of every array (scalar vs SIMD-enabled vs sanitised builds)")
    # giant arrays (16.7M-50M elements), the first cases of each shard, pinned flags and SIMD build
    gp = sz(tier, 2, 6)
    c.spec("array-giant", "rel", "drv_array", "c02", gp, params=[4097, 0, 0, gp, 1], timeout=3000)
    if HAVE_NATIVE and tier == "thorough":
        c.spec("array-giant-native", "native", "drv_array", "c02", gp, params=[4097, 0, 0, gp, 1], timeout=3000)
    for name in ARRAY_CODECS:
        c.require("codec." + name, c.stat("codec." + name), 1000)
    c.require("random_access_probes", c.stat("c02_random_access_probes"), 100000)
    c.require("for_block_reads", c.stat("c02_block_reads"), 10000)
    c.require("bp128_block32_cases", c.stat("c02_block32_cases"), 200)
    c.require("arrays_over_2^20_elements", c.stat("c02_huge_arrays"), 20)
    c.assumptions = ["decoders are given the original element count (formats without a terminator)",
                     "dictionary inputs have at most 2^20 distinct values (decoder's documented cap)"]
    c.finish(c.stat("cases"), c.extra["per_cfg"].get("distinct_nontrivial@rel", 0),
             "one (codec variant, array) per case, codec round-robin over %d variants; arrays from 15 content models x "
             "boundary-straddling lengths (<=4097, 1 in 1500 cases 8k-68k, the first cases of every shard 1.05M-3M elements with a unique minimum and maximum at random positions); encoded bytes are copied to an exact-size heap "
             "block (ASan) or followed by two different garbage tails (other configs) before decoding; distinct = "
             "distinct (codec, array) hash, non-trivial = length>=2 and not all equal; counted on the rel configuration" % len(ARRAY_CODECS))


def C03(tier):
    c = Check("C03", tier)
    n = sz(tier, 31 * 40_000, 31 * 700_000)
    count = per_shard(n)
    p = [2000, sz(tier, 3000, 1500), sz(tier, 0, 1)]
    c.spec("bound-asan", "asan", "drv_array", "c03", count, shards=sz(tier, list(range(8)), list(range(8))), params=p)
    c.spec("bound-rel", "rel", "drv_array", "c03", count, params=p[:2] + [1])  # incl. the runs of >= 2^24 identical values
    c.spec("bound-dbg", "dbg", "drv_array", "c03", count, shards=[8, 9], params=p)
    other_builds(c, "bound", "drv_array", "c03", count, params=p)
    # giant arrays (16.7M-50M elements: past 2^24 and past 2^32/100..2^32/90 elements), the first p3 cases of each shard
    gp = sz(tier, 2, 8)
    c.spec("bound-giant", "rel", "drv_array", "c03", gp, params=p[:2] + [0, gp], timeout=3000)
    nf = sz(tier, 300_000, 10_000_000)
    c.spec("float-bound-asan", "asan", "drv_float", "c03", per_shard(nf), shards=[0, 1, 2, 3])
    c.spec("float-bound-rel", "rel", "drv_float", "c03", per_shard(nf))
    for name in ARRAY_CODECS + ADAPTIVE_CODECS:
        c.require("codec." + name, c.stat("codec." + name), 500)
    # the bound must actually be approached: per sizing function, max written/advertised >= 0.9
    groups = {"varintDeltaMaxEncodedSize": ["delta.signed", "delta.unsigned"], "varintFORSize": ["for", "for.batch"],
              "varintPFORSize": ["pfor.90", "pfor.95", "pfor.99"], "varintGroupSize": ["group", "group.putget"],
              "varintDictEncodedSize": ["dict", "dict.withdict"], "varintRLESize": ["rle"],
              "varintRLEMaxSize": ["rle.maxsize", "rle.header"], "varintEliasGammaMaxBytes": ["elias.gamma"],
              "varintEliasDeltaMaxBytes": ["elias.delta"],
              "varintBP128MaxBytes": ["bp128.32", "bp128.64", "bp128.delta32", "bp128.delta64"],
              "varintAdaptiveMaxSize": ADAPTIVE_CODECS}
    for fn, names in groups.items():
        best = max(c.maxes.get("ratio_permille." + nm, 0) for nm in names)
        c.require("approached." + fn, best, 900, "(max written/advertised, permille)")
    c.require("ratio_permille.float", c.maxes.get("ratio_permille.float", 0), 300, "(varintFloatMaxEncodedSize is loose by construction: 9 bytes per exponent and 8 per value are both reserved)")
    c.require("dictionary_refusals", c.stat("c03_dictionary_refusals"), 1000, "(EncodeWithDict with a value missing from the dictionary)")
    c.assumptions = ["advertised size per codec as listed in DESIGN.md C03 (max-size bounds and size predictors)"]
    c.finish(c.stat("cases"), c.extra["per_cfg"].get("distinct_nontrivial@rel", 0),
             "destination is exactly the advertised number of bytes (heap block under ASan, 4 KiB verified guard elsewhere); "
             "inputs: general array mixture plus worst-case generators per bound (all-maximal values, alternating extremes, "
             "exceptions at the highest indices, 64-bit-wide deltas, tiny arrays, sampler-aliasing periodic arrays >10000); "
             "non-trivial = length>=2 and not all equal, distinct by (codec, array) hash on rel")


def C13(tier):
    c = Check("C13", tier)
    n = sz(tier, 20 * 30_000, 20 * 600_000)
    count = per_shard(n)
    c.spec("cap-asan", "asan", "drv_array", "c13", count, shards=sz(tier, list(range(8)), list(range(8))), params=[1000, 300, 0, sz(tier, 2, 6)])
    c.spec("cap-asanR", "asanR", "drv_array", "c13", count, shards=[8, 9, 10, 11], params=[1000, 300, 0, sz(tier, 2, 6)])
    c.spec("cap-rel", "rel", "drv_array", "c13", count, params=[1000, 300, 0, sz(tier, 2, 6)])
    other_builds(c, "cap", "drv_array", "c13", count, params=[1000, 300, 0, sz(tier, 2, 6)])
    capcodecs = ["for", "for.batch", "group", "dict.into", "rle", "rle.header", "elias.gamma", "elias.delta", "bp128.32", "bp128.64",
                 "bp128.delta32", "bp128.delta64", "adaptive.DELTA", "adaptive.FOR", "adaptive.PFOR", "adaptive.DICT",
                 "adaptive.BITMAP", "adaptive.TAGGED"]
    for name in capcodecs:
        c.require("codec." + name, c.stat("codec." + name), 500)
    c.require("decodes_with_stale_meta", c.stat("c13_decodes_with_stale_meta"), 10000)
    c.require("long_arrays", c.stat("c13_long_arrays"), 200)
    c.require("huge_arrays", c.stat("c13_huge_arrays"), 20, "(1.05M-3M elements)")
    c.require("capacity0", c.stat("c13_capacity0"), 10000)
    c.require("refused", c.stat("c13_refused"), 10000)
    c.require("prefix", c.stat("c13_prefix"), 10000)
    c.assumptions = ["oracle: r == 0, or r <= capacity and the first r outputs equal the original prefix; capacities never exceed the encoded count"]
    c.finish(c.stat("c13_decodes"), c.extra["per_cfg"].get("distinct_nontrivial@rel", 0),
             "(valid encoding, capacity) pairs (arrays up to 1000 elements, 1 in 300 8k-68k; adaptive decoders also with a garbage or stale output meta): capacities {0,1,2,n/2,n-1,n,random, 127..129 and n-128 for block codecs}; output "
             "is an exact-size heap block of `capacity` elements under ASan (malloc(0) for 0) and capacity + 4 KiB verified guard "
             "elsewhere; non-trivial = capacity < n; counted on rel")


def C16(tier):
    c = Check("C16", tier)
    n = sz(tier, 27 * 30_000, 27 * 400_000)
    count = per_shard(n)
    p = [4097, 1000, sz(tier, 0, 1), sz(tier, 2, 6)]  # p3: the first cases of every shard are arrays of 1.05M-3M elements
    c.spec("meta-rel", "rel", "drv_array", "c16", count, params=p[:2] + [1, p[3]])  # incl. the runs of >= 2^24 identical values
    c.spec("meta-asan", "asan", "drv_array", "c16", count, shards=[0, 1, 2, 3], params=p)
    c.spec("meta-msan", "msan", "drv_array", "c16", count, shards=[4, 5], params=p)
    other_builds(c, "meta", "drv_array", "c16", count, shards=(6, 7), params=p)
    if tier == "thorough":
        # one array of 2^29+k elements in 8-byte slots: the value section alone exceeds 4 GiB (about 20 GiB of memory, a few
        # minutes; skipped with a note when less than 30 GiB is available)
        c.spec("meta-colossal", "rel", "drv_array", "c16", 1, nshards=1, shards=[0], params=[4097, 0, 0, 0, 1], sparam="pfor.95", timeout=3000)
    nf = sz(tier, 200_000, 5_000_000)
    c.spec("float-meta-rel", "rel", "drv_float", "c16", per_shard(nf))
    c.spec("float-meta-asan", "asan", "drv_float", "c16", per_shard(nf), shards=[0, 1])
    c.require("facts_checked", c.stat("c16_facts_checked"), 1_000_000)
    for k in ("c16_pfor_no_exceptions", "c16_pfor_one_exception", "c16_pfor_many_exceptions"):
        c.require(k, c.stat(k), 100)
    c.require("float_consumed_checks", c.stat("c16_float_consumed_checked"), 10000)
    c.require("huge_arrays", c.stat("c16_huge_arrays"), 20, "(1.05M-3M elements)")
    c.require("giant_run_cases", c.stat("giant_run_cases"), 4, "(runs of 2^24 and more identical values)")
    if tier == "thorough":
        if c.stat("c16_colossal_arrays") < 1:
            c.notes.append("the > 4 GiB PFOR case was skipped: less than 30 GiB of memory available")
        c.extra["colossal_arrays"] = c.stat("c16_colossal_arrays")
    c.assumptions = ["in/out metadata structs (FOR encode, PFOR decode) are passed zeroed, as the API requires; output-only structs are poisoned with 0xEE before the call"]
    c.finish(c.stat("cases"), c.extra["per_cfg"].get("distinct_nontrivial@rel", 0),
             "every metadata-reporting codec variant on the array mixture with emphasis on counts whose tagged length changes "
             "and multiples of 128; ground truth from the input, from a two-pattern diff of the destination (bytes actually "
             "written) and from reference parsers of the documented layouts; distinct (codec,array) hash, non-trivial = "
             "length>=2 and not all equal, on rel")


def C06(tier):
    c = Check("C06", tier)
    n = sz(tier, 120_000, 800_000)
    count = per_shard(n)
    p = [sz(tier, 1500, 4097), sz(tier, 2500, 1500), 0, sz(tier, 3, 12)]  # p3: worst-case-width arrays of 65k-200k elements per shard
    c.spec("adaptive-rel", "rel", "drv_array", "c06", count, params=p, timeout=3000)
    c.spec("adaptive-asan", "asan", "drv_array", "c06", count, shards=sz(tier, [0, 1, 2, 3], [0, 1, 2, 3]), params=p, timeout=3000)
    c.spec("adaptive-dbg", "dbg", "drv_array", "c06", count, shards=[4], params=p, timeout=3000)
    other_builds(c, "adaptive", "drv_array", "c06", count, shards=(5, 6), params=p, timeout=3000)
    # payloads over 1 MiB: forced DICT on 1.2e6 few-unique values (and one automatic case in the thorough tier)
    c.spec("adaptive-huge", "rel", "drv_array", "c06", 1, nshards=2, shards=sz(tier, [0], [0, 1]), params=[100, 0, 1], timeout=3000)
    for leaf in ("DICT", "BITMAP", "DELTA", "PFOR", "FOR", "TAGGED"):
        tot = sum(c.stat("leaf.%s.%s" % (leaf, d)) for d in ("ascending", "descending", "unsorted"))
        c.require("leaf." + leaf, tot, 100)
    c.require("leaf.DELTA.descending", c.stat("leaf.DELTA.descending"), 20)
    c.require("sampled_uniqueness_path", c.stat("c06_sampled_uniqueness_path"), 10)
    c.require("payload_over_1MiB", c.stat("c06_payload_over_1MiB"), 1)
    c.require("distinct_leaf_guard_cells", c.stat("c06_distinct_leaf_guard_cells"), 30)
    c.require("wide_long_arrays", c.stat("c06_wide_long_arrays"), 40)
    for f in ("DELTA", "FOR", "PFOR", "DICT", "BITMAP", "TAGGED"):
        c.require("forced." + f, c.stat("adaptive.forced." + f), 500)
    c.assumptions = ["forced BITMAP only for strictly increasing values below 65536; dictionary inputs <= 2^20 distinct values"]
    c.finish(c.stat("c06_arrays"), c.extra["per_cfg"].get("distinct_nontrivial@rel", 0),
             "arrays generated per decision-tree leaf and guard (unique ratio around 0.15/0.9, density around 0.05, count around "
             "10000, ascending/descending/unsorted, one duplicate, maxValue 65535/65536, avgDelta around 1000 and minValue/10, "
             "outlier ratio around 5%, range around 100n and near 2^64, PFOR marker ranges, periodic) plus the general mixture and, per shard, "
             "arrays of 65535-200001 distinct values nearly all >= 2^56 (worst-case width at the count thresholds); "
             "each array: automatic encode/decode, then each forced encoding whose domain contains it; leaf and guard outcomes "
             "observed through meta.encodingType and varintAdaptiveAnalyze; distinct by array hash on rel")


# --------------------------------------------------------------------------- C07
def C07(tier):
    c = Check("C07", tier)
    n = sz(tier, 300_000, 6_000_000)
    count = per_shard(n)
    p = [sz(tier, 300, 600), sz(tier, 1500, 5000)]  # p1: one case in this many is a long array (32k-200k elements)
    runs = [c.spec("float-rel", "rel", "drv_float", "c07", count, params=p)]
    runs.append(c.spec("float-asan", "asan", "drv_float", "c07", count, shards=[0, 1, 2, 3], params=p))
    runs.append(c.spec("float-dbg", "dbg", "drv_float", "c07", count, shards=[4, 5], params=p))
    runs.append(c.spec("float-clang", "clang", "drv_float", "c07", count, shards=[6, 7, 8, 9], params=p))
    c.compare_digests(runs, "encoded bytes of every float array")
    for pr in ("FULL", "HIGH", "MEDIUM", "LOW"):
        for m in ("INDEPENDENT", "COMMON_EXPONENT", "DELTA_EXPONENT"):
            c.require("cell.%s.%s" % (pr, m), c.stat("cell.%s.%s" % (pr, m)), 10000)
    c.require("arrays_with_carry_mantissas", c.stat("c07_arrays_with_carry_mantissas"), 1000)
    c.require("arrays_spread_over_255", c.stat("c07_arrays_spread_over_255"), 1000)
    for k in ("nan", "inf", "subnormal", "zero"):
        c.require("special_" + k, c.stat("c07_special_" + k), 1000)
    c.require("auto_requests", c.stat("c07_auto_requests"), 10000)
    c.require("long_arrays", c.stat("c07_long_arrays"), 100)
    c.require("rounded_to_infinity", c.stat("c07_rounded_to_infinity"), 1)
    c.assumptions = ["oracle is the published bound 2^-mantissa_bits (no reference quantiser: any rounding rule inside the bound is accepted)",
                     "infinity accepted only when |x|(1+bound) > DBL_MAX"]
    c.finish(c.stat("c07_arrays"), c.extra["per_cfg"].get("distinct_nontrivial@rel", 0),
             "arrays of doubles built from bit fields (any exponent, same magnitude, carry mantissas 1.11..1, specials, one normal "
             "among specials, sensor-like, extremes), each through all 4 precisions x 3 exponent modes and 3 EncodeAuto requests "
             "(log-uniform and between-mode-bound values); distinct by array hash, non-trivial = has a normal value with a "
             "non-zero mantissa; counted on rel")


WRAP = dict(extra_src=("wrap_alloc.c",), extra_ld=("-Wl,--wrap=malloc,--wrap=calloc,--wrap=realloc,--wrap=free,--wrap=aligned_alloc,--wrap=posix_memalign,--wrap=memalign,--wrap=valloc,--wrap=pvalloc,--wrap=reallocarray,--wrap=strdup,--wrap=strndup",))


# --------------------------------------------------------------------------- C08
def C08(tier):
    c = Check("C08", tier)
    n = sz(tier, 4000, 100_000)
    count = per_shard(n)
    c.spec("bitmap-rel", "rel", "drv_bitmap", "c08", count, build_kw=WRAP)
    c.spec("bitmap-asan", "asan", "drv_bitmap", "c08", count, shards=sz(tier, [0, 1, 2], [0, 1, 2, 3]), build_kw=WRAP)
    c.spec("bitmap-dbg", "dbg", "drv_bitmap", "c08", count, shards=[5], build_kw=WRAP)
    for a, b in (("ARRAY", "BITMAP"), ("BITMAP", "ARRAY"), ("ARRAY", "RUNS"), ("BITMAP", "RUNS"), ("RUNS", "ARRAY"), ("RUNS", "BITMAP")):
        c.require("transition.%s_to_%s" % (a, b), c.stat("transition.%s_to_%s" % (a, b)), 50)
    for t in ("ARRAY", "BITMAP", "RUNS"):
        c.require("decode_of_" + t, c.stat("c08_decode_of_" + t), 50)
    c.require("long_range_on_nonempty", c.stat("c08_long_range_on_nonempty"), 200)
    c.require("long_range_on_runs_container", c.stat("c08_long_range_on_runs_container"), 20)
    c.require("set_algebra_ops", c.stat("c08_set_algebra_ops"), 5000)
    c.require("universe_sized_addmany_batches", c.stat("c08_universe_sized_addmany_batches"), 200)
    c.require("full_universe_states", c.stat("c08_full_universe_states"), 20)
    c.require("multi_run_containers", c.stat("c08_multi_run_containers"), 500, "(run containers with several runs, obtained by deserialising a run-length serialisation)")
    c.assumptions = ["ranges are half-open [min,max) with max <= 65535 (uint16_t API)",
                     "leak monitor: every block allocated during a history (link-time malloc wrapper) must be freed once all objects are freed"]
    c.finish(c.stat("cases"), c.extra["per_cfg"].get("distinct_nontrivial@rel", 0),
             "one history per case: 2-8 live objects, 50-400 operations from {Add, Remove, AddRange, RemoveRange, Clear, Clone, "
             "AddMany, Or, And, Xor, AndNot, Encode->Decode, Free+Create}, values drawn from a ~4300-wide window so cardinality "
             "crosses 4096 repeatedly, ranges > 4096 on non-empty and RUNS-typed objects; every step: return value, cardinality, "
             "emptiness, memberships vs a 65536-bit model; array export + iteration on container change / every 8th step / "
             "bulk ops; operands of binary ops re-checked; distinct = history (seeded), all non-trivial; counted on rel; "
             "operations executed: %d" % c.stat("c08_operations"))


# --------------------------------------------------------------------------- C09
def C09(tier):
    import math
    import re
    c = Check("C09", tier)
    n = sz(tier, 111 * 4 * 400, 111 * 4 * 8000)
    count = per_shard(n)
    c.spec("packed-asan", "asan", "drv_packed", "c09", count)
    c.spec("packed-rel", "rel", "drv_packed", "c09", count)
    c.spec("packed-dbg", "dbg", "drv_packed", "c09", count, shards=[0, 1, 2, 3])
    c.spec("packed-clang", "clang", "drv_packed", "c09", count, shards=[4, 5, 6, 7])
    total = c.maxes.get("instantiations_total", 0)
    c.require("instantiations_total", total, 107)
    insts = sorted(k[5:] for k in c.stats if k.startswith("inst."))
    missing = 0
    for name in insts:
        m = re.match(r"pk\w*_u(\d+)_(\d+)$", name)
        sb, bits = int(m.group(1)), int(m.group(2))
        if c.stat("inst." + name) < 8:
            missing += 1
            c.inconclusive.append("instantiation %s executed only %d times" % (name, c.stat("inst." + name)))
        if bits <= sb and c.stat("oneslot." + name) < 5:
            c.inconclusive.append("instantiation %s: one-slot path not exercised" % name)
        if bits > math.gcd(bits, sb) and sb % bits != 0 and c.stat("twoslot." + name) < 5:
            c.inconclusive.append("instantiation %s: two-slot path not exercised" % name)
    c.must["instantiations_executed"] = dict(seen=len(insts) - missing, required=total)
    if len(insts) < total:
        c.inconclusive.append("only %d of %d instantiations reported" % (len(insts), total))
    c.require("histories", c.stat("c09_histories"), 2000)
    c.require("histories_near_the_maximum_of_a_narrow_length_type", c.stat("c09_histories_near_the_maximum_of_a_narrow_length_type"), 100)
    c.require("histories_over_65536_elements", c.stat("c09_histories_over_65536_elements"), 20)
    c.require("huge_index_writes", c.stat("c09_huge_index_writes"), 200, "(bit offsets >= 2^32 in lazily mapped storage)")
    c.require("accesses_beyond_index_65535", c.stat("c09_accesses_beyond_index_65535"), 1000)
    c.assumptions = ["legal instantiations: bits <= slotbits + gcd(bits, slotbits); compact only where bits > slotbits (DESIGN.md C09)",
                     "values < 2^bits, SetIncr with non-negative increment and in-range result",
                     "'accesses only the slots the element occupies' is observed for writes everywhere (whole-storage diff) and for reads at the ends of exact-size blocks (ASan)"]
    c.finish(c.stat("cases"), c.extra["per_cfg"].get("distinct_nontrivial@rel", 0),
             "configuration space enumerated exhaustively (%d instantiations: bits 1-32 x slot 8/16/32/64, compact and micro-promotion "
             "variants); per instantiation: isolation sub-tests (Set/SetIncr/SetHalf at random and boundary positions over random prior "
             "contents, whole-storage before/after diff against a bit-exact LSB-first model, exact-size storage) and sorted / positional "
             "histories of 50-300 operations against a reference array; distinct = (instantiation, seeded sub-test), counted on rel" % total,
             extra_cov=dict(exhaustive_over_configurations=True))


# --------------------------------------------------------------------------- C10
def C10(tier):
    c = Check("C10", tier)
    n = sz(tier, 60_000, 3_000_000)
    count = per_shard(n)
    p = [sz(tier, 400, 200)]
    c.spec("dim-asan", "asan", "drv_dimension", "c10", count, shards=list(range(8)), params=p)
    c.spec("dim-rel", "rel", "drv_dimension", "c10", count, params=p)
    c.spec("dim-dbg", "dbg", "drv_dimension", "c10", count, shards=[8, 9], params=p)
    if HAVE_NATIVE:
        c.spec("dim-native", "native", "drv_dimension", "c10", count, shards=list(range(8)), params=p)
    else:
        c.notes.append("half-float cells need F16C: -march=native configuration skipped on this cpu")
    for a in range(9):
        for b in range(1, 9):
            c.require("widthpair.%d_%d" % (a, b), c.stat("widthpair.%d_%d" % (a, b)), 20)
    kinds = ["bit", "u1", "u2", "u3", "u4", "u5", "u6", "u7", "u8", "float", "double"] + (["half"] if HAVE_NATIVE else [])
    for k in kinds:
        c.require("kind." + k, c.stat("kind." + k), 100)
    for k in ("c10_bit_cleared_by_set_false", "c10_toggle_1_to_0", "c10_toggle_0_to_1", "c10_writes_row0", "c10_writes_last_cell", "c10_pack_refusals"):
        c.require(k, c.stat(k), 500)
    c.require("wide_vector_writes", c.stat("c10_wide_vector_writes"), 100, "(bit vectors with > 2^32 columns, lazily mapped)")
    c.require("wide_vector_writes_beyond_4GiB", c.stat("c10_wide_vector_writes_beyond_4GiB"), 20)
    c.require("buffer_reuse_histories", c.stat("c10_buffer_reuse_histories"), 200)
    c.require("big_bit_matrix_cells_beyond_2^32", c.stat("c10_big_bit_matrix_cells_beyond_2^32"), 500, "(boolean matrices of > 2^32 cells with <= 4-byte row and column counts)")
    c.assumptions = ["cols >= 1; Pack claims only pairs below 2^32", "byte cells behind 5-8 byte column counts cannot be backed by memory; covered by headers and bit vectors"]
    c.finish(c.stat("cases"), c.extra["per_cfg"].get("distinct_nontrivial@rel", 0),
             "cases cycle through pack/unpack pairs (nibble boundaries, >= 2^32 refusals), all 72 header width combinations "
             "(exhaustive over widths, min/max/random values of each width, exact-size destination) and matrices (vector, 1x1, 1xn, "
             "nx1, 2- and 3-byte column counts, 2-byte row counts, random <= 40x40) of every entry kind with 100-500 writes each, "
             "whole-buffer before/after comparison against the documented layout; distinct = seeded case, counted on rel",
             extra_cov=dict(exhaustive_over_header_width_pairs=True))


# --------------------------------------------------------------------------- C11
BS32 = dict(extra_cflags=("-DVBITS=uint32_t", "-DVBITSVAL=uint32_t"))


def C11(tier):
    c = Check("C11", tier)
    reps = sz(tier, 24, 256)
    rounds = sz(tier, 4, 8)
    n64, n32 = 64 * 64 * rounds, 32 * 32 * rounds
    def bs(slot, val=None):
        return dict(extra_cflags=("-DVBITS=uint%d_t" % slot,) + (("-DVBITSVAL=uint%d_t" % val,) if val else ()))
    # the narrower matched word types and "slot type overridden alone" (value type left at its uint64_t default): the header's
    # two knobs are independent; widths 1..slot bits
    for tag, kw, n in (("16", bs(16, 16), 16 * 16 * rounds * 4), ("8", bs(8, 8), 8 * 8 * rounds * 16), ("32v64", bs(32), n32),
                       ("16v64", bs(16), 16 * 16 * rounds * 4), ("8v64", bs(8), 8 * 8 * rounds * 16)):
        pp = [reps, 7]
        c.spec("bits%s-asan" % tag, "asan", "drv_bitstream", "c11", per_shard(n), params=pp, build_kw=kw, shards=[0, 1, 2, 3, 4, 5, 6, 7])
        c.spec("bits%s-rel" % tag, "rel", "drv_bitstream", "c11", per_shard(n), params=pp, build_kw=kw)
        c.spec("bits%s-clang" % tag, "clang", "drv_bitstream", "c11", per_shard(n), params=pp, build_kw=kw, shards=[8, 9, 10, 11])
    for tag, kw, n in (("64", {}, n64), ("32", BS32, n32)):
        pp = [reps, 7]
        c.spec("bits%s-asan" % tag, "asan", "drv_bitstream", "c11", per_shard(n), params=pp, build_kw=kw)
        c.spec("bits%s-rel" % tag, "rel", "drv_bitstream", "c11", per_shard(n), params=pp, build_kw=kw)
        c.spec("bits%s-dbg" % tag, "dbg", "drv_bitstream", "c11", per_shard(n), params=pp, build_kw=kw, shards=[0, 1, 2, 3])
        c.spec("bits%s-clang" % tag, "clang", "drv_bitstream", "c11", per_shard(n), params=pp, build_kw=kw, shards=[4, 5, 6, 7])
        if HAVE_NATIVE:
            c.spec("bits%s-native" % tag, "native", "drv_bitstream", "c11", per_shard(n), params=pp, build_kw=kw, shards=[8, 9, 10, 11])
    c.require("oneword_writes", c.stat("c11_oneword_writes"), 10000)
    c.require("twoword_writes", c.stat("c11_twoword_writes"), 10000)
    c.require("fullwidth_unaligned", c.stat("c11_fullwidth_unaligned"), 1000)
    c.require("signed_roundtrips", c.stat("c11_signed_roundtrips"), 10000)
    c.require("append_sequences", c.stat("c11_append_sequences"), 50)
    c.require("huge_stream_writes", c.stat("c11_huge_stream_writes"), 600, "(offsets around 2^31, 2^32, 2^32+2^31, 2^33 and 2^34 in lazily mapped streams)")
    c.require("huge_stream_writes_spanning_two_words", c.stat("c11_huge_stream_writes_spanning_two_words"), 100)
    c.require("pairs_enumerated_rel", c.extra["per_cfg"].get("distinct_nontrivial@rel", 0), 64 * 64 + 32 * 32)
    c.assumptions = ["word types: uint64_t default; VBITS=VBITSVAL=uint32_t (documented); uint16_t and uint8_t pairs; VBITS alone = uint32_t/uint16_t/uint8_t with the default 64-bit value type, widths up to the slot width", "value < 2^width; PrepareSigned applied to negative values only"]
    c.finish(c.stat("c11_writes"), c.extra["per_cfg"].get("distinct_nontrivial@rel", 0),
             "all (offset mod word, width) pairs enumerated exhaustively for both word types (64x64 + 32x32), each at 3 absolute word "
             "positions x %d (value, prior contents) samples incl. all-zero/all-one backgrounds; stream is an exact-size block ending "
             "at the last overlapped word; whole-stream before/after comparison against an MSB-first bit model; signed helper round "
             "trips; 1000-field append sequences; distinct = (word type, offset, width) per round" % reps,
             extra_cov=dict(exhaustive_over_offset_width_pairs=True))


# --------------------------------------------------------------------------- C14
C14_EPS = ["varintTaggedGet", "varintDictDecode", "varintDictDecodeInto", "varintEliasGammaDecodeArray", "varintEliasDeltaDecodeArray",
           "varintBitmapDecode", "varintRLEGetRunCount"]


def C14(tier):
    c = Check("C14", tier)
    n = sz(tier, 7 * 40_000, 7 * 2_000_000)
    count = per_shard(n)
    c.spec("hostile-asanR", "asanR", "drv_hostile", "c14", count, build_kw=WRAP, timeout=1800)
    c.spec("hostile-asan", "asan", "drv_hostile", "c14", count, shards=list(range(8)), build_kw=WRAP, timeout=1800)
    c.spec("hostile-rel", "rel", "drv_hostile", "c14", count, build_kw=WRAP, timeout=1800)
    other_builds(c, "hostile", "drv_hostile", "c14", count, build_kw=WRAP, timeout=1800)
    for ep in C14_EPS:
        c.require("accepted." + ep, c.stat("accepted." + ep), 500)
        c.require("rejected." + ep, c.stat("rejected." + ep), 500)
        for k in ("valid", "truncation", "mutation", "random", "hostile-header"):
            c.require("kind.%s.%s" % (ep, k), c.stat("kind.%s.%s" % (ep, k)), 300)
    c.require("truncations", c.stat("c14_truncations"), 50000)
    c.require("dict_wrapping_count_inputs", c.stat("c14_dict_wrapping_count_inputs"), 1000)
    c.require("dictionaries_over_65536_entries", c.stat("c14_dictionaries_over_65536_entries"), 20)
    c.require("elias_reader_histories", c.stat("c14_elias_reader_histories"), 10000)
    c.assumptions = ["every input is an exact-size heap copy of exactly the declared bytes (ASan red zone at the declared size)",
                     "Elias bit counts that are not multiples of 8: the remaining bits of the last byte are checked by running with them 0 and 1",
                     "allocation cap per call: max(16 MiB, 64 x declared length), observed by a link-time malloc wrapper",
                     "termination: 10 s alarm per input"]
    c.finish(c.stat("c14_inputs"), c.extra["per_cfg"].get("distinct_nontrivial@rel", 0),
             "per entry point: complete valid encodings, every truncation of short valid encodings (sampled for long ones; bit "
             "granularity for Elias), 1-3 byte/bit mutations, random strings of 0-64 and up to 4096 bytes, structured hostile headers "
             "(counts 2^61..2^64-1 that wrap count*width, dictionary sizes at/over the cap, Elias prefixes > 64 bits, bitmap type bytes "
             "and cardinalities far beyond the input, cut run varints); distinct = seeded case (entry point x kind), counted on rel")


# --------------------------------------------------------------------------- C15
WORLDS = {0: "identity order, fresh process", 1: "shuffled order", 2: "each call preceded by 1-3 other library calls",
          3: "stack painted 0x00", 4: "stack painted 0xFF", 5: "stack painted 0xA5", 6: "stack painted with the call's element count",
          7: "heap residue: freed blocks filled with the element count", 8: "heap residue: M_PERTURB + 0xFF-filled destinations",
          9: "buffer reuse: same call first made on a look-alike input (same addresses, count, first/last element) in the same buffers"}


def _c15_name_divergence(c, ref, other, shard):
    """Re-run both runs of one shard with per-call digests and name the first diverging call."""
    import subprocess
    outs = []
    for r in (ref, other):
        cmd = [r.exe] + r.base_args + ["--shard", str(shard), "--p1", "1"]
        e = dict(__import__("os").environ)
        e.update(core.SAN_ENV)
        p = subprocess.run(cmd, stdout=subprocess.PIPE, stderr=subprocess.DEVNULL, env=e, timeout=1800)
        d = {}
        for line in p.stdout.decode("utf-8", "replace").splitlines():
            if line.startswith("CALLDIG "):
                _, ci, hx, nm = line.split(" ", 3)
                d[int(ci)] = (hx, nm)
        outs.append(d)
    for ci in sorted(outs[0]):
        if ci in outs[1] and outs[0][ci][0] != outs[1][ci][0]:
            return ci, outs[0][ci][1]
    return -1, "unknown"


def C15(tier):
    c = Check("C15", tier)
    n = sz(tier, 80_000, 1_000_000)
    count = per_shard(n)
    specs = []
    for cfg, worlds, shards in (("rel", range(10), None), ("dbg", range(10), [0, 1]), ("clang", (0, 1, 6, 7, 9), [2, 3]),
                                ("asan", (0, 2, 6, 9), [4, 5]), ("msan", (0, 6), sz(tier, [6, 7], [6, 7, 8, 9]))):
        for w in worlds:
            specs.append((cfg, w, c.spec("calls-%s-w%d" % (cfg, w), cfg, "drv_history", "c15", count, shards=shards, params=[w, 0], timeout=2400)))
    if True:  # memcheck as an independent detector with different blind spots (small sample in the quick tier)
        specs.append(("vg", 0, c.spec("calls-memcheck-w0", "dbg", "drv_history", "c15", sz(tier, 400, max(50, count // 8)), shards=[10, 11, 12, 13], params=[0, 0], timeout=3500,
                                      wrapper=["valgrind", "-q", "--error-exitcode=97", "--undef-value-errors=yes", "--track-origins=no"])))
    c.go()
    ref = specs[0][2].run
    ncmp = 0
    for cfg, w, h in specs[1:]:
        if cfg == "vg":
            continue
        o = h.run
        for s, r in o.shards.items():
            a = ref.shards.get(s)
            if not a or a.done is None or r.done is None or a.crashes or r.crashes:
                continue
            if "calls" in a.digests and "calls" in r.digests:
                ncmp += 1
                if a.digests["calls"] != r.digests["calls"]:
                    ci, nm = _c15_name_divergence(c, ref, o, s)
                    key = "C15:%s:result-differs-between-%s" % (nm, "worlds" if cfg == "rel" else "worlds-or-builds")
                    c.violation(key, dict(driver="drv_history", cfg=o.cfg, mode="c15", seed=o.seed, shard=s, args=o.base_args + ["--shard", str(s)],
                                          build_kw=o.build_kw, case=-1,
                                          detail="call %d (%s): digest in %s world %d (%s) differs from rel world 0" % (ci, nm, cfg, w, WORLDS[w])))
    c.stats["digest_comparisons"] = ncmp
    c.require("digest_comparisons", ncmp, 40)
    c.require("calls", c.stat("c15_calls"), 100000)
    c.require("sampled_analysis_calls", c.stat("c15_sampled_analysis_calls"), 200, "(automatic adaptive encodes of > 10000 elements)")
    c.extra["worlds"] = {str(k): v for k, v in WORLDS.items()}
    c.assumptions = ["call i is a function of (seed, i) only; in/out metadata structs are passed zeroed (the API reads them)",
                     "MSan: every library output the harness digests is first checked with __msan_check_mem_is_initialized; output-only metadata structs are MSan-poisoned before the call"]
    c.finish(c.stat("c15_calls"), c.extra["per_cfg"].get("distinct_nontrivial@rel", 0) // 10,
             "a list of calls covering every codec variant of codecs.h (encode, decode, random access) plus 14 further API groups "
             "(float, bitmap algebra + serialise, dictionary stats/reuse, adaptive analysis, FOR/PFOR analysis, RLE/BP128 helpers, group, "
             "PFOR ReadMeta, BP128 delta meta) executed in 10 worlds (order, preceding calls, stack painting incl. the call's own count, "
             "heap residue, buffer reuse after a look-alike input); per-shard digests of per-call results must be identical across worlds and across gcc -O2/-O0/clang/ASan/MSan "
             "builds; MSan reports and crashes in any world are violations; non-trivial = calls that take a metadata struct or allocate; "
             "distinct calls counted once (rel, all worlds / 10)")


# --------------------------------------------------------------------------- C17
def C17(tier):
    c = Check("C17", tier)
    rounds = sz(tier, 30, 200)
    tsan_env = {"TSAN_OPTIONS": "halt_on_error=0:exitcode=0:report_signal_unsafe=0:history_size=4"}
    handles = []
    for T_ in (2, 4, 8, 16):
        handles.append(c.spec("threads-tsan-%d" % T_, "tsan", "drv_threads", "c17", 1, nshards=4, shards=sz(tier, [0, 1], [0, 1, 2, 3]),
                              params=[T_, rounds], env=tsan_env, timeout=3000))
        handles.append(c.spec("threads-rel-%d" % T_, "rel", "drv_threads", "c17", 1, nshards=4, shards=[0, 1, 2, 3], params=[T_, rounds * 4], timeout=3000))
    handles.append(c.spec("threads-dbg-8", "dbg", "drv_threads", "c17", 1, nshards=4, shards=[0], params=[8, rounds], timeout=3000))
    if HAVE_NATIVE:
        # SIMD-enabled, NDEBUG build under TSan and plain: code that exists only when __AVX2__ is defined
        for T_ in (4, 8):
            handles.append(c.spec("threads-tsanN-%d" % T_, "tsanN", "drv_threads", "c17", 1, nshards=4, shards=[0, 1], params=[T_, rounds], env=tsan_env, timeout=3000))
        handles.append(c.spec("threads-native-8", "native", "drv_threads", "c17", 1, nshards=4, shards=[0, 1], params=[8, rounds * 2], timeout=3000))
    # cold start: fresh processes in which no library function has run before the threads are released together, so that
    # one-time initialisation (lazily built tables, first-use caches) is itself exercised concurrently
    ncold = sz(tier, 6, 24)
    handles.append(c.spec("cold-tsan-8", "tsan", "drv_threads", "c17cold", 1, nshards=ncold, shards=list(range(ncold)), params=[8, 1], env=tsan_env, timeout=3000))
    handles.append(c.spec("cold-rel-16", "rel", "drv_threads", "c17cold", 1, nshards=ncold * 2, shards=list(range(ncold * 2)), params=[16, 1], timeout=3000))
    if HAVE_NATIVE:
        handles.append(c.spec("cold-tsanN-8", "tsanN", "drv_threads", "c17cold", 1, nshards=4, shards=[0, 1, 2, 3][:sz(tier, 2, 4)], params=[8, 1], env=tsan_env, timeout=3000))
    if tier == T:
        handles.append(c.spec("threads-helgrind-4", "dbg", "drv_threads", "c17", 1, nshards=4, shards=[0, 1], params=[4, 8], timeout=3400,
                              wrapper=["valgrind", "-q", "--tool=helgrind", "--history-level=approx"]))
    c.go()
    nreports = 0
    harness_only = 0
    for h in handles:
        for s, r in h.run.shards.items():
            for tool, kind, repo_funcs, allf in r.reports:
                nreports += 1
                if repo_funcs:
                    key = "C17:%s:data-race(%s)" % ("|".join(repo_funcs), tool)
                    c.violation(key, dict(driver="drv_threads", cfg=h.run.cfg, mode="c17", seed=h.run.seed, shard=s, args=h.run.base_args + ["--shard", str(s)],
                                          build_kw=h.run.build_kw, env=h.run.env, wrapper=h.run.wrapper, case=-1,
                                          detail="%s: %s; library frames %s; stack %s" % (tool, kind, list(repo_funcs), list(allf))))
                else:
                    harness_only += 1
    c.stats["race_reports_total"] = nreports
    c.stats["race_reports_without_library_frame"] = harness_only
    if harness_only:
        c.inconclusive.append("%d race report(s) with no frame in %s/src (harness or runtime): monitor not trustworthy for this run" % (harness_only, core.REPO))
    total_ops = c.maxes.get("c17_ops_total", 0)
    c.require("ops_that_overlapped_themselves", c.maxes.get("c17_ops_that_overlapped_themselves", 0), total_ops,
              "(every op must have been observed running concurrently with itself in at least one process)")
    c.require("distinct_overlapping_pairs", c.maxes.get("c17_distinct_overlapping_pairs", 0), 300)
    c.require("calls_overlapping_another", c.stat("c17_calls_overlapping_another"), 10000)
    c.require("cold_start_processes_x_ops", c.stat("c17_cold_start_ops"), 6 * 40)
    c.assumptions = ["TSan's happens-before analysis over the schedules actually produced approximates 'all interleavings'; the overlap matrix says what was produced",
                     "shared inputs are read-only after setup; outputs, packed arrays and bitstreams are thread-private (the documented contract)"]
    c.finish(c.stat("c17_calls"), c.maxes.get("c17_distinct_overlapping_pairs", 0),
             "2/4/8/16 threads x rounds; %d ops (every codec variant encode/decode/random access, scalar families, in-place add, float, "
             "a shared const dictionary, packed arrays and bitstreams on private storage) over 6 shared read-only inputs; lock-step rounds "
             "(barrier after every op: all threads inside the same function) alternate with permuted rounds; yields/sleeps injected between "
             "calls; every result compared with its sequential reference; TSan reports parsed per shard and de-duplicated by library entry "
             "points; distinct_nontrivial = distinct (op, op') pairs observed overlapping in one process (max over processes)" % total_ops)


# --------------------------------------------------------------------------- C18
OOM_KW = dict(extra_src=("wrap_alloc.c",), extra_ld=("-Wl,--wrap=malloc,--wrap=calloc,--wrap=realloc,--wrap=free,--wrap=aligned_alloc,--wrap=posix_memalign,--wrap=memalign,--wrap=valloc,--wrap=pvalloc,--wrap=reallocarray,--wrap=strdup,--wrap=strndup", "-no-pie"))
C18_FILES = ["varintDict.c", "varintPFOR.c", "varintFloat.c", "varintAdaptive.c", "varintBitmap.c"]


def _alloc_sites_in_source():
    import os
    import re
    sites = []
    for f in C18_FILES:
        path = os.path.join(core.REPO, "src", f)
        try:
            lines = open(path).read().splitlines()
        except OSError:
            continue
        in_test = False
        for i, l in enumerate(lines, 1):
            if re.match(r"#ifdef VARINT_\w+_TEST", l):
                in_test = True
            if re.search(r"\b(malloc|calloc|realloc|aligned_alloc|posix_memalign|memalign|valloc|pvalloc|reallocarray|strdup|strndup)\s*\(", l) and not l.strip().startswith(("/*", "*", "//")) and not in_test:
                sites.append((f, i))
    return sites


def _resolve_sites(exe, addrs):
    import subprocess
    out = set()
    if not addrs:
        return out
    alist = ["0x%x" % (int(a, 16) - 1) for a in sorted(addrs)]
    p = subprocess.run(["addr2line", "-e", exe] + alist, stdout=subprocess.PIPE, text=True)
    for line in p.stdout.splitlines():
        m = __import__("re").match(r"(.*?):(\d+)", line)
        if m:
            out.add((__import__("os").path.basename(m.group(1)), int(m.group(2))))
    return out


def C18(tier):
    c = Check("C18", tier, level="fault_enumeration")
    variants = 306
    reps = sz(tier, 5, 30)
    count = per_shard(variants * reps)
    h1 = c.spec("oom-asanR", "asanR", "drv_oom", "c18", count, build_kw=OOM_KW, timeout=3000)
    h2 = c.spec("oom-asan", "asan", "drv_oom", "c18", count, build_kw=OOM_KW, timeout=3000)
    h3 = c.spec("oom-rel", "rel", "drv_oom", "c18", count, build_kw=OOM_KW, timeout=3000)
    c.go()
    total = c.maxes.get("c18_scenario_variants", 0)
    c.require("scenario_variants_enumerated", c.extra["cases_per_cfg"].get("rel", 0), total)
    hit = set()
    for h in (h1, h2, h3):
        addrs = set()
        for r in h.run.shards.values():
            addrs |= r.sites
        hit |= _resolve_sites(h.run.exe, addrs)
    src_sites = _alloc_sites_in_source()
    never = []
    for f, ln in src_sites:
        if not any(hf == f and abs(hl - ln) <= 3 for hf, hl in hit):
            never.append("%s:%d" % (f, ln))
    c.extra["allocation_sites_in_source"] = len(src_sites)
    c.extra["allocation_sites_failed_at_least_once"] = len(src_sites) - len(never)
    c.extra["allocation_sites_never_failed"] = never
    c.extra["failed_sites_resolved"] = sorted("%s:%d" % x for x in hit if x[0] in C18_FILES)
    c.require("allocation_sites_failed", len(src_sites) - len(never), int(0.9 * len(src_sites)),
              "(of %d malloc/calloc/realloc call sites in the five anchored files)" % len(src_sites))
    for s in ("varintDictBuild", "varintPFOREncode", "varintFloatEncode", "varintAdaptiveEncodeWith", "varintAdaptiveDecode", "varintBitmapAdd",
              "varintBitmapRemove", "varintBitmapAddRange", "varintBitmapSetAlgebra", "varintBitmapClone", "varintBitmapDecode"):
        c.require("faults." + s, c.stat("faults." + s), 6)
    c.assumptions = ["exactly one allocation call (the k-th) fails per execution; later ones succeed",
                     "accepted outcomes: the documented failure value with the object unchanged as a set, or a fully correct result; void "
                     "mutators must leave a consistent set between old and old+added (old-removed and old)",
                     "varintAdaptiveCountUnique / varintPFORComputeThreshold document a fallback value on allocation failure (count / zeroed meta), accepted"]
    c.finish(c.stat("c18_faults_injected"), c.extra["per_cfg"].get("distinct_nontrivial@rel", 0),
             "%d (allocating API x input variant) scenarios enumerated; for each, N = allocation calls in a fault-free run, then every "
             "k = 1..N is failed in a forked child (exhaustive over failure position for these inputs) under ASan with and without NDEBUG "
             "and the pinned flags; oracle: no crash, no block allocated during the call left live after cleanup, success only with "
             "correct output, long-lived objects consistent and usable afterwards; inputs chosen to reach every allocation site "
             "(bitmap at 4095/4096/4097 members, RUNS containers, array growth, >16 unique dictionary values, both CountUnique branches); "
             "evaluations = faults injected; distinct = scenario variants x seeded repetitions on rel" % total,
             extra_cov=dict(exhaustive_over_failure_position=True))
