"""Per-property check definitions: workloads, must-observe rules, evidence."""
from . import core
from .core import Check, run_workload, NCPU, HAVE_NATIVE

Q, T = "quick", "thorough"


def sz(tier, quick, thorough):
    return quick if tier == Q else thorough


def per_shard(total, nshards=NCPU):
    return (total + nshards - 1) // nshards


# --------------------------------------------------------------------------- C01
def C01(tier):
    c = Check("C01", tier)
    E = sz(tier, 1 << 20, 1 << 26)
    samples = sz(tier, 2_000_000, 60_000_000)
    count = per_shard(E + samples)
    p = [E]
    runs = [run_workload(c, "scalar-rel", "rel", "drv_scalar", "c01", count, params=p)]
    few = sz(tier, [0, 5, 10, 15], [0, 5])
    runs.append(run_workload(c, "scalar-dbg", "dbg", "drv_scalar", "c01", count, shards=few, params=p))
    runs.append(run_workload(c, "scalar-asan", "asan", "drv_scalar", "c01", count, shards=few, params=p))
    runs.append(run_workload(c, "scalar-clang", "clang", "drv_scalar", "c01", count, shards=sz(tier, few, list(range(8))), params=p))
    if HAVE_NATIVE:
        runs.append(run_workload(c, "scalar-native", "native", "drv_scalar", "c01", count, shards=sz(tier, few, list(range(8))), params=p))
    else:
        c.notes.append("native (-march=native) configuration skipped: cpu lacks avx2+avx512vl+f16c")
    c.compare_digests(runs, "encoded bytes of every value")
    fams = ["tagged", "chained", "chainedSimple", "split", "splitFull", "splitFullNoZero", "splitFull16"]
    for f in fams:
        lo = 2 if f == "splitFull16" else 1
        for L in range(lo, 10):
            c.require("lenclass.%s.%d" % (f, L), c.stat("lenclass.%s.%d" % (f, L)), 1000)
    for f in ("externalLE", "externalBE"):
        for L in range(1, 9):
            c.require("lenclass.%s.%d" % (f, L), c.stat("lenclass.%s.%d" % (f, L)), 1000)
            c.require("fixedwidth.%s.%d" % (f, L), c.stat("fixedwidth.%s.%d" % (f, L)), 1000)
    for W in range(1, 10):
        c.require("fixedwidth.tagged.%d" % W, c.stat("fixedwidth.tagged.%d" % W), 1000)
    for a in range(16):
        c.require("align.%d" % a, c.stat("align.%d" % a), 1000)
    c.require("signed_negative_cases", c.stat("c01_signed_negative_cases"), 10000)
    c.assumptions = ["x86-64 little-endian host; the big-endian host branch of varintExternal*.c is not executable here",
                     "fixed widths exercised are the legal ones: external any width >= minimal; tagged minimal, or >= 4 and >= minimal"]
    c.finish(c.stat("cases"), c.extra["per_cfg"].get("distinct_cases@rel", 0),
             "values: 0..E-1 enumerated (E=%d) plus boundary-biased mixture samples; every value goes through every "
             "family/entry point/legal fixed width at alignment (index mod 16); distinct = distinct value, "
             "non-trivial = value >= 64 (multi-byte in at least one family)" % E)


# --------------------------------------------------------------------------- C04
def C04(tier):
    c = Check("C04", tier)
    E = sz(tier, 1 << 20, 1 << 26)
    samples = sz(tier, 2_000_000, 60_000_000)
    count = per_shard(E + samples)
    p = [E]
    run_workload(c, "format-rel", "rel", "drv_scalar", "c04", count, params=p, env={"VERIF_REPO": core.REPO})
    run_workload(c, "format-asan", "asan", "drv_scalar", "c04", count, shards=[0, 7], params=p, env={"VERIF_REPO": core.REPO})
    run_workload(c, "format-dbg", "dbg", "drv_scalar", "c04", count, shards=[0, 3], params=p, env={"VERIF_REPO": core.REPO})
    fams = ["tagged", "chained", "chainedSimple", "split", "splitFull", "splitFullNoZero", "splitFull16"]
    for f in fams:
        lo = 2 if f == "splitFull16" else 1
        for L in range(lo, 10):
            c.require("lenclass.%s.%d" % (f, L), c.stat("lenclass.%s.%d" % (f, L)), 1000)
    c.require("per_length_maxima_checked", c.stat("c04_per_length_maxima_checked"), 60)
    c.require("readme_cells_checked", c.stat("c04_readme_cells_checked"), 30)
    c.require("constants_checked", c.stat("c04_constants_checked"), 20)
    c.require("elias_codewords", c.stat("c04_elias_codewords"), 100000)
    c.require("length_boundaries_crossed", c.stat("c04_length_boundaries_crossed"), 1000)
    c.assumptions = ["reference encoders in harness/ref_scalar.h are written from the documented formats and share no code with the library",
                     "reversed split forms are checked under C01 only (the documented layouts are the forward ones)"]
    c.finish(c.stat("cases"), c.extra["per_cfg"].get("distinct_cases@rel", 0),
             "same value stream as C01 (0..E-1 enumerated, E=%d, plus boundary-biased samples); each value: library bytes vs "
             "independent reference for every byte-emitting entry point of every family, reference bytes decoded by every "
             "library decoder, len(v)<=len(v+1), zig-zag, Elias gamma/delta code words; plus per-length maxima vs header "
             "constants and README tables; non-trivial = value >= 64" % E)


# --------------------------------------------------------------------------- C05
def C05(tier):
    c = Check("C05", tier)
    E = sz(tier, 1 << 20, 1 << 26)
    mix = sz(tier, 600_000, 12_000_000)
    K = sz(tier, 4096, 16384)
    count = per_shard(E + mix)
    p = [E, K]
    run_workload(c, "order-rel", "rel", "drv_scalar", "c05", count, params=p)
    run_workload(c, "order-asan", "asan", "drv_scalar", "c05", count, shards=[1, 9], params=p)
    run_workload(c, "order-dbg", "dbg", "drv_scalar", "c05", count, shards=[2], params=p)
    c.require("perturbation_pairs", c.stat("c05_perturbation_pairs"), 10000)
    c.require("scalar_sorts", c.stat("c05_scalar_sorts"), 100)
    c.require("tuple_sorts", c.stat("c05_tuple_sorts"), 300)
    c.assumptions = ["memcmp over min(len_a,len_b) bytes is the comparison a caller performs; ties are impossible for distinct values because the code is prefix-free (checked)"]
    c.finish(c.stat("c05_pairs") + c.stat("c05_scalar_sorts") + c.stat("c05_tuple_sorts"), c.extra["per_cfg"].get("c05_nontrivial_pairs@rel", 0),
             "pairs: (v,v+1),(v+1,v),(v,v) for v in 0..E-1 (E=%d) and boundary-biased v; random pairs; pairs whose encodings "
             "differ in exactly one payload byte; memcmp-sorts of K=%d scalar keys and 2-/3-/4-tuples (each sort certifies "
             "K(K-1)/2 pairs, counted separately in pairs_certified_by_sorts); non-trivial = the two keys differ in length or "
             "in a non-final byte" % (E, K))


# --------------------------------------------------------------------------- C12
def C12(tier):
    c = Check("C12", tier)
    n = sz(tier, 4_000_000, 200_000_000)
    count = per_shard(n)
    run_workload(c, "add-rel", "rel", "drv_scalar", "c12", count)
    run_workload(c, "add-asan", "asan", "drv_scalar", "c12", count, shards=sz(tier, [0, 1, 2, 3], [0, 1]))
    run_workload(c, "add-dbg", "dbg", "drv_scalar", "c12", count, shards=[4])
    run_workload(c, "add-clang", "clang", "drv_scalar", "c12", count, shards=[5, 6])
    for f in ("taggedNoGrow", "externalNoGrow"):
        for o in ("overflow", "refused", "samewidth", "widthchanged"):
            c.require("outcome.%s.%s" % (f, o), c.stat("outcome.%s.%s" % (f, o)), 10000)
    for f in ("taggedGrow", "externalGrow"):
        for o in ("overflow", "samewidth", "widthchanged"):
            c.require("outcome.%s.%s" % (f, o), c.stat("outcome.%s.%s" % (f, o)), 10000)
    c.assumptions = ["stored values are read as signed 64-bit (the API's contract); the slot of a no-grow call is exactly its current width "
                     "(heap block under ASan, guard bytes elsewhere)"]
    c.finish(c.stat("c12_calls"), c.extra["per_cfg"].get("distinct_nontrivial_triples@rel", 0),
             "(stored value, slot width, amount) triples: stored at width boundaries +-2 and mixture; amounts +-1, +-2^k, "
             "boundary-stored, INT64_MIN/MAX, overflow edges, random; slot = minimal width or a legal wider fixed width; each "
             "triple runs tagged/external x NoGrow/Grow against an __int128 model; non-trivial = overflow, refused or width change; "
             "distinct counted on the rel configuration only")
