"""Per-property check definitions: workloads, must-observe rules, evidence."""
from . import core
from .core import Check, run_workload, NCPU, HAVE_NATIVE

Q, T = "quick", "thorough"


def sz(tier, quick, thorough):
    return quick if tier == Q else thorough


def per_shard(total, nshards=NCPU):
    return (total + nshards - 1) // nshards


# --------------------------------------------------------------------------- C01
def C01(tier):
    c = Check("C01", tier)
    E = sz(tier, 1 << 20, 1 << 26)
    samples = sz(tier, 2_000_000, 60_000_000)
    count = per_shard(E + samples)
    p = [E]
    runs = [run_workload(c, "scalar-rel", "rel", "drv_scalar", "c01", count, params=p)]
    few = sz(tier, [0, 5, 10, 15], [0, 5])
    runs.append(run_workload(c, "scalar-dbg", "dbg", "drv_scalar", "c01", count, shards=few, params=p))
    runs.append(run_workload(c, "scalar-asan", "asan", "drv_scalar", "c01", count, shards=few, params=p))
    runs.append(run_workload(c, "scalar-clang", "clang", "drv_scalar", "c01", count, shards=sz(tier, few, list(range(8))), params=p))
    if HAVE_NATIVE:
        runs.append(run_workload(c, "scalar-native", "native", "drv_scalar", "c01", count, shards=sz(tier, few, list(range(8))), params=p))
    else:
        c.notes.append("native (-march=native) configuration skipped: cpu lacks avx2+avx512vl+f16c")
    c.compare_digests(runs, "encoded bytes of every value")
    fams = ["tagged", "chained", "chainedSimple", "split", "splitFull", "splitFullNoZero", "splitFull16"]
    for f in fams:
        lo = 2 if f == "splitFull16" else 1
        for L in range(lo, 10):
            c.require("lenclass.%s.%d" % (f, L), c.stat("lenclass.%s.%d" % (f, L)), 1000)
    for f in ("externalLE", "externalBE"):
        for L in range(1, 9):
            c.require("lenclass.%s.%d" % (f, L), c.stat("lenclass.%s.%d" % (f, L)), 1000)
            c.require("fixedwidth.%s.%d" % (f, L), c.stat("fixedwidth.%s.%d" % (f, L)), 1000)
    for W in range(1, 10):
        c.require("fixedwidth.tagged.%d" % W, c.stat("fixedwidth.tagged.%d" % W), 1000)
    for a in range(16):
        c.require("align.%d" % a, c.stat("align.%d" % a), 1000)
    c.require("signed_negative_cases", c.stat("c01_signed_negative_cases"), 10000)
    c.assumptions = ["x86-64 little-endian host; the big-endian host branch of varintExternal*.c is not executable here",
                     "fixed widths exercised are the legal ones: external any width >= minimal; tagged minimal, or >= 4 and >= minimal"]
    c.finish(c.stat("cases"), c.extra["per_cfg"].get("distinct_cases@rel", 0),
             "values: 0..E-1 enumerated (E=%d) plus boundary-biased mixture samples; every value goes through every "
             "family/entry point/legal fixed width at alignment (index mod 16); distinct = distinct value, "
             "non-trivial = value >= 64 (multi-byte in at least one family)" % E)


# --------------------------------------------------------------------------- C04
def C04(tier):
    c = Check("C04", tier)
    E = sz(tier, 1 << 20, 1 << 26)
    samples = sz(tier, 2_000_000, 60_000_000)
    count = per_shard(E + samples)
    p = [E]
    run_workload(c, "format-rel", "rel", "drv_scalar", "c04", count, params=p, env={"VERIF_REPO": core.REPO})
    run_workload(c, "format-asan", "asan", "drv_scalar", "c04", count, shards=[0, 7], params=p, env={"VERIF_REPO": core.REPO})
    run_workload(c, "format-dbg", "dbg", "drv_scalar", "c04", count, shards=[0, 3], params=p, env={"VERIF_REPO": core.REPO})
    fams = ["tagged", "chained", "chainedSimple", "split", "splitFull", "splitFullNoZero", "splitFull16"]
    for f in fams:
        lo = 2 if f == "splitFull16" else 1
        for L in range(lo, 10):
            c.require("lenclass.%s.%d" % (f, L), c.stat("lenclass.%s.%d" % (f, L)), 1000)
    c.require("per_length_maxima_checked", c.stat("c04_per_length_maxima_checked"), 60)
    c.require("readme_cells_checked", c.stat("c04_readme_cells_checked"), 30)
    c.require("constants_checked", c.stat("c04_constants_checked"), 20)
    c.require("elias_codewords", c.stat("c04_elias_codewords"), 100000)
    c.require("length_boundaries_crossed", c.stat("c04_length_boundaries_crossed"), 1000)
    c.assumptions = ["reference encoders in harness/ref_scalar.h are written from the documented formats and share no code with the library",
                     "reversed split forms are checked under C01 only (the documented layouts are the forward ones)"]
    c.finish(c.stat("cases"), c.extra["per_cfg"].get("distinct_cases@rel", 0),
             "same value stream as C01 (0..E-1 enumerated, E=%d, plus boundary-biased samples); each value: library bytes vs "
             "independent reference for every byte-emitting entry point of every family, reference bytes decoded by every "
             "library decoder, len(v)<=len(v+1), zig-zag, Elias gamma/delta code words; plus per-length maxima vs header "
             "constants and README tables; non-trivial = value >= 64" % E)


# --------------------------------------------------------------------------- C05
def C05(tier):
    c = Check("C05", tier)
    E = sz(tier, 1 << 20, 1 << 26)
    mix = sz(tier, 600_000, 12_000_000)
    K = sz(tier, 4096, 16384)
    count = per_shard(E + mix)
    p = [E, K]
    run_workload(c, "order-rel", "rel", "drv_scalar", "c05", count, params=p)
    run_workload(c, "order-asan", "asan", "drv_scalar", "c05", count, shards=[1, 9], params=p)
    run_workload(c, "order-dbg", "dbg", "drv_scalar", "c05", count, shards=[2], params=p)
    c.require("perturbation_pairs", c.stat("c05_perturbation_pairs"), 10000)
    c.require("scalar_sorts", c.stat("c05_scalar_sorts"), 100)
    c.require("tuple_sorts", c.stat("c05_tuple_sorts"), 300)
    c.assumptions = ["memcmp over min(len_a,len_b) bytes is the comparison a caller performs; ties are impossible for distinct values because the code is prefix-free (checked)"]
    c.finish(c.stat("c05_pairs") + c.stat("c05_scalar_sorts") + c.stat("c05_tuple_sorts"), c.extra["per_cfg"].get("c05_nontrivial_pairs@rel", 0),
             "pairs: (v,v+1),(v+1,v),(v,v) for v in 0..E-1 (E=%d) and boundary-biased v; random pairs; pairs whose encodings "
             "differ in exactly one payload byte; memcmp-sorts of K=%d scalar keys and 2-/3-/4-tuples (each sort certifies "
             "K(K-1)/2 pairs, counted separately in pairs_certified_by_sorts); non-trivial = the two keys differ in length or "
             "in a non-final byte" % (E, K))


# --------------------------------------------------------------------------- C12
def C12(tier):
    c = Check("C12", tier)
    n = sz(tier, 4_000_000, 200_000_000)
    count = per_shard(n)
    run_workload(c, "add-rel", "rel", "drv_scalar", "c12", count)
    run_workload(c, "add-asan", "asan", "drv_scalar", "c12", count, shards=sz(tier, [0, 1, 2, 3], [0, 1]))
    run_workload(c, "add-dbg", "dbg", "drv_scalar", "c12", count, shards=[4])
    run_workload(c, "add-clang", "clang", "drv_scalar", "c12", count, shards=[5, 6])
    for f in ("taggedNoGrow", "externalNoGrow"):
        for o in ("overflow", "refused", "samewidth", "widthchanged"):
            c.require("outcome.%s.%s" % (f, o), c.stat("outcome.%s.%s" % (f, o)), 10000)
    for f in ("taggedGrow", "externalGrow"):
        for o in ("overflow", "samewidth", "widthchanged"):
            c.require("outcome.%s.%s" % (f, o), c.stat("outcome.%s.%s" % (f, o)), 10000)
    c.assumptions = ["stored values are read as signed 64-bit (the API's contract); the slot of a no-grow call is exactly its current width "
                     "(heap block under ASan, guard bytes elsewhere)"]
    c.finish(c.stat("c12_calls"), c.extra["per_cfg"].get("distinct_nontrivial_triples@rel", 0),
             "(stored value, slot width, amount) triples: stored at width boundaries +-2 and mixture; amounts +-1, +-2^k, "
             "boundary-stored, INT64_MIN/MAX, overflow edges, random; slot = minimal width or a legal wider fixed width; each "
             "triple runs tagged/external x NoGrow/Grow against an __int128 model; non-trivial = overflow, refused or width change; "
             "distinct counted on the rel configuration only")


# --------------------------------------------------------------------------- array codecs
ARRAY_CODECS = ["delta.signed", "delta.unsigned", "for", "for.preanalysed", "for.nullmeta", "for.batch", "for.batchenc-scalardec",
                "pfor.90", "pfor.95", "pfor.99", "group", "dict", "dict.into", "dict.withdict", "rle", "rle.maxsize",
                "rle.header", "elias.gamma", "elias.delta", "bp128.32", "bp128.64", "bp128.delta32", "bp128.delta64"]
ADAPTIVE_CODECS = ["adaptive.auto", "adaptive.DELTA", "adaptive.FOR", "adaptive.PFOR", "adaptive.DICT", "adaptive.BITMAP", "adaptive.TAGGED"]


def C02(tier):
    c = Check("C02", tier)
    n = sz(tier, 23 * 40_000, 23 * 1_000_000)
    count = per_shard(n)
    p = [4097, sz(tier, 4000, 4000)]
    runs = [run_workload(c, "array-rel", "rel", "drv_array", "c02", count, params=p)]
    if HAVE_NATIVE:
        runs.append(run_workload(c, "array-native", "native", "drv_array", "c02", count, params=p))
    else:
        c.notes.append("SIMD (-march=native) configuration skipped: cpu lacks avx2+avx512vl")
    runs.append(run_workload(c, "array-asan", "asan", "drv_array", "c02", count, shards=sz(tier, [0, 1, 2, 3], [0, 1, 2, 3]), params=p))
    runs.append(run_workload(c, "array-dbg", "dbg", "drv_array", "c02", count, shards=[4, 5], params=p))
    runs.append(run_workload(c, "array-clang", "clang", "drv_array", "c02", count, shards=[6, 7], params=p))
    c.compare_digests(runs, "encoded bytes of every array (scalar vs SIMD-enabled vs sanitised builds)")
    for name in ARRAY_CODECS:
        c.require("codec." + name, c.stat("codec." + name), 1000)
    c.require("random_access_probes", c.stat("c02_random_access_probes"), 100000)
    c.require("for_block_reads", c.stat("c02_block_reads"), 10000)
    c.require("bp128_block32_cases", c.stat("c02_block32_cases"), 200)
    c.assumptions = ["decoders are given the original element count (formats without a terminator)",
                     "dictionary inputs have at most 2^20 distinct values (decoder's documented cap)"]
    c.finish(c.stat("cases"), c.extra["per_cfg"].get("distinct_nontrivial@rel", 0),
             "one (codec variant, array) per case, codec round-robin over %d variants; arrays from 15 content models x "
             "boundary-straddling lengths (<=4097, 1 in 4000 cases 10k-68k); encoded bytes are copied to an exact-size heap "
             "block (ASan) or followed by two different garbage tails (other configs) before decoding; distinct = "
             "distinct (codec, array) hash, non-trivial = length>=2 and not all equal; counted on the rel configuration" % len(ARRAY_CODECS))


def C03(tier):
    c = Check("C03", tier)
    n = sz(tier, 30 * 20_000, 30 * 700_000)
    count = per_shard(n)
    p = [2000, sz(tier, 3000, 1500)]
    run_workload(c, "bound-asan", "asan", "drv_array", "c03", count, shards=sz(tier, list(range(8)), list(range(8))), params=p)
    run_workload(c, "bound-rel", "rel", "drv_array", "c03", count, params=p)
    run_workload(c, "bound-dbg", "dbg", "drv_array", "c03", count, shards=[8, 9], params=p)
    nf = sz(tier, 300_000, 10_000_000)
    run_workload(c, "float-bound-asan", "asan", "drv_float", "c03", per_shard(nf), shards=[0, 1, 2, 3])
    run_workload(c, "float-bound-rel", "rel", "drv_float", "c03", per_shard(nf))
    for name in ARRAY_CODECS + ADAPTIVE_CODECS:
        c.require("codec." + name, c.stat("codec." + name), 500)
    # the bound must actually be approached: per sizing function, max written/advertised >= 0.9
    groups = {"varintDeltaMaxEncodedSize": ["delta.signed", "delta.unsigned"], "varintFORSize": ["for", "for.batch"],
              "varintPFORSize": ["pfor.90", "pfor.95", "pfor.99"], "varintGroupSize": ["group"],
              "varintDictEncodedSize": ["dict", "dict.withdict"], "varintRLESize": ["rle"],
              "varintRLEMaxSize": ["rle.maxsize", "rle.header"], "varintEliasGammaMaxBytes": ["elias.gamma"],
              "varintEliasDeltaMaxBytes": ["elias.delta"],
              "varintBP128MaxBytes": ["bp128.32", "bp128.64", "bp128.delta32", "bp128.delta64"],
              "varintAdaptiveMaxSize": ADAPTIVE_CODECS}
    for fn, names in groups.items():
        best = max(c.maxes.get("ratio_permille." + nm, 0) for nm in names)
        c.require("approached." + fn, best, 900, "(max written/advertised, permille)")
    c.require("ratio_permille.float", c.maxes.get("ratio_permille.float", 0), 300, "(varintFloatMaxEncodedSize is loose by construction: 9 bytes per exponent and 8 per value are both reserved)")
    c.assumptions = ["advertised size per codec as listed in DESIGN.md C03 (max-size bounds and size predictors)"]
    c.finish(c.stat("cases"), c.extra["per_cfg"].get("distinct_nontrivial@rel", 0),
             "destination is exactly the advertised number of bytes (heap block under ASan, 4 KiB verified guard elsewhere); "
             "inputs: general array mixture plus worst-case generators per bound (all-maximal values, alternating extremes, "
             "exceptions at the highest indices, 64-bit-wide deltas, tiny arrays, sampler-aliasing periodic arrays >10000); "
             "non-trivial = length>=2 and not all equal, distinct by (codec, array) hash on rel")


def C13(tier):
    c = Check("C13", tier)
    n = sz(tier, 20 * 15_000, 20 * 600_000)
    count = per_shard(n)
    run_workload(c, "cap-asan", "asan", "drv_array", "c13", count, shards=sz(tier, list(range(8)), list(range(8))), params=[1000])
    run_workload(c, "cap-asanR", "asanR", "drv_array", "c13", count, shards=[8, 9, 10, 11], params=[1000])
    run_workload(c, "cap-rel", "rel", "drv_array", "c13", count, params=[1000])
    capcodecs = ["for", "for.batch", "group", "dict.into", "rle", "rle.header", "elias.gamma", "elias.delta", "bp128.32", "bp128.64",
                 "bp128.delta32", "bp128.delta64", "adaptive.DELTA", "adaptive.FOR", "adaptive.PFOR", "adaptive.DICT",
                 "adaptive.BITMAP", "adaptive.TAGGED"]
    for name in capcodecs:
        c.require("codec." + name, c.stat("codec." + name), 500)
    c.require("capacity0", c.stat("c13_capacity0"), 10000)
    c.require("refused", c.stat("c13_refused"), 10000)
    c.require("prefix", c.stat("c13_prefix"), 10000)
    c.assumptions = ["oracle: r == 0, or r <= capacity and the first r outputs equal the original prefix; capacities never exceed the encoded count"]
    c.finish(c.stat("c13_decodes"), c.extra["per_cfg"].get("distinct_nontrivial@rel", 0),
             "(valid encoding, capacity) pairs: capacities {0,1,2,n/2,n-1,n,random, 127..129 and n-128 for block codecs}; output "
             "is an exact-size heap block of `capacity` elements under ASan (malloc(0) for 0) and capacity + 4 KiB verified guard "
             "elsewhere; non-trivial = capacity < n; counted on rel")


def C16(tier):
    c = Check("C16", tier)
    n = sz(tier, 27 * 30_000, 27 * 800_000)
    count = per_shard(n)
    p = [4097, 4000]
    run_workload(c, "meta-rel", "rel", "drv_array", "c16", count, params=p)
    run_workload(c, "meta-asan", "asan", "drv_array", "c16", count, shards=[0, 1, 2, 3], params=p)
    run_workload(c, "meta-msan", "msan", "drv_array", "c16", count, shards=[4, 5], params=p)
    nf = sz(tier, 200_000, 5_000_000)
    run_workload(c, "float-meta-rel", "rel", "drv_float", "c16", per_shard(nf))
    run_workload(c, "float-meta-asan", "asan", "drv_float", "c16", per_shard(nf), shards=[0, 1])
    c.require("facts_checked", c.stat("c16_facts_checked"), 1_000_000)
    for k in ("c16_pfor_no_exceptions", "c16_pfor_one_exception", "c16_pfor_many_exceptions"):
        c.require(k, c.stat(k), 100)
    c.require("float_consumed_checks", c.stat("c16_float_consumed_checked"), 10000)
    c.assumptions = ["in/out metadata structs (FOR encode, PFOR decode) are passed zeroed, as the API requires; output-only structs are poisoned with 0xEE before the call"]
    c.finish(c.stat("cases"), c.extra["per_cfg"].get("distinct_nontrivial@rel", 0),
             "every metadata-reporting codec variant on the array mixture with emphasis on counts whose tagged length changes "
             "and multiples of 128; ground truth from the input, from a two-pattern diff of the destination (bytes actually "
             "written) and from reference parsers of the documented layouts; distinct (codec,array) hash, non-trivial = "
             "length>=2 and not all equal, on rel")


def C06(tier):
    c = Check("C06", tier)
    n = sz(tier, 60_000, 1_500_000)
    count = per_shard(n)
    p = [sz(tier, 1500, 4097), sz(tier, 2500, 1500), 0]
    run_workload(c, "adaptive-rel", "rel", "drv_array", "c06", count, params=p, timeout=3000)
    run_workload(c, "adaptive-asan", "asan", "drv_array", "c06", count, shards=sz(tier, [0, 1, 2, 3], [0, 1, 2, 3]), params=p, timeout=3000)
    run_workload(c, "adaptive-dbg", "dbg", "drv_array", "c06", count, shards=[4], params=p, timeout=3000)
    # payloads over 1 MiB: forced DICT on 1.2e6 few-unique values (and one automatic case in the thorough tier)
    run_workload(c, "adaptive-huge", "rel", "drv_array", "c06", 1, nshards=2, shards=sz(tier, [0], [0, 1]), params=[100, 0, 1], timeout=3000)
    for leaf in ("DICT", "BITMAP", "DELTA", "PFOR", "FOR", "TAGGED"):
        tot = sum(c.stat("leaf.%s.%s" % (leaf, d)) for d in ("ascending", "descending", "unsorted"))
        c.require("leaf." + leaf, tot, 100)
    c.require("leaf.DELTA.descending", c.stat("leaf.DELTA.descending"), 20)
    c.require("sampled_uniqueness_path", c.stat("c06_sampled_uniqueness_path"), 10)
    c.require("payload_over_1MiB", c.stat("c06_payload_over_1MiB"), 1)
    c.require("distinct_leaf_guard_cells", c.stat("c06_distinct_leaf_guard_cells"), 30)
    for f in ("DELTA", "FOR", "PFOR", "DICT", "BITMAP", "TAGGED"):
        c.require("forced." + f, c.stat("adaptive.forced." + f), 500)
    c.assumptions = ["forced BITMAP only for strictly increasing values below 65536; dictionary inputs <= 2^20 distinct values"]
    c.finish(c.stat("c06_arrays"), c.extra["per_cfg"].get("distinct_nontrivial@rel", 0),
             "arrays generated per decision-tree leaf and guard (unique ratio around 0.15/0.9, density around 0.05, count around "
             "10000, ascending/descending/unsorted, one duplicate, maxValue 65535/65536, avgDelta around 1000 and minValue/10, "
             "outlier ratio around 5%, range around 100n and near 2^64, PFOR marker ranges, periodic) plus the general mixture; "
             "each array: automatic encode/decode, then each forced encoding whose domain contains it; leaf and guard outcomes "
             "observed through meta.encodingType and varintAdaptiveAnalyze; distinct by array hash on rel")


# --------------------------------------------------------------------------- C07
def C07(tier):
    c = Check("C07", tier)
    n = sz(tier, 300_000, 12_000_000)
    count = per_shard(n)
    p = [sz(tier, 300, 600), 20000]
    runs = [run_workload(c, "float-rel", "rel", "drv_float", "c07", count, params=p)]
    runs.append(run_workload(c, "float-asan", "asan", "drv_float", "c07", count, shards=[0, 1, 2, 3], params=p))
    runs.append(run_workload(c, "float-dbg", "dbg", "drv_float", "c07", count, shards=[4, 5], params=p))
    runs.append(run_workload(c, "float-clang", "clang", "drv_float", "c07", count, shards=[6, 7, 8, 9], params=p))
    c.compare_digests(runs, "encoded bytes of every float array")
    for pr in ("FULL", "HIGH", "MEDIUM", "LOW"):
        for m in ("INDEPENDENT", "COMMON_EXPONENT", "DELTA_EXPONENT"):
            c.require("cell.%s.%s" % (pr, m), c.stat("cell.%s.%s" % (pr, m)), 10000)
    c.require("arrays_with_carry_mantissas", c.stat("c07_arrays_with_carry_mantissas"), 1000)
    c.require("arrays_spread_over_255", c.stat("c07_arrays_spread_over_255"), 1000)
    for k in ("nan", "inf", "subnormal", "zero"):
        c.require("special_" + k, c.stat("c07_special_" + k), 1000)
    c.require("auto_requests", c.stat("c07_auto_requests"), 10000)
    c.require("rounded_to_infinity", c.stat("c07_rounded_to_infinity"), 1)
    c.assumptions = ["oracle is the published bound 2^-mantissa_bits (no reference quantiser: any rounding rule inside the bound is accepted)",
                     "infinity accepted only when |x|(1+bound) > DBL_MAX"]
    c.finish(c.stat("c07_arrays"), c.extra["per_cfg"].get("distinct_nontrivial@rel", 0),
             "arrays of doubles built from bit fields (any exponent, same magnitude, carry mantissas 1.11..1, specials, one normal "
             "among specials, sensor-like, extremes), each through all 4 precisions x 3 exponent modes and 3 EncodeAuto requests "
             "(log-uniform and between-mode-bound values); distinct by array hash, non-trivial = has a normal value with a "
             "non-zero mantissa; counted on rel")
