#!/usr/bin/env python3
"""Regenerates /verif/MANIFEST.json from the table below (keeps it schema-valid)."""
import json, os, sys
V = os.path.dirname(os.path.dirname(os.path.abspath(__file__)))
sys.path.insert(0, V)
from vlib import props

HOOK_COMMITS = []

CHECKS = {
 "C01": ("exploration", "guard-buffer + exact-size-heap (ASan/UBSan) monitors over enumerated and boundary-biased values, cross-configuration digests",
         "Every value 0..2^20 (2^26 thorough) and millions of boundary-biased 64-bit samples pass through every family, entry point, macro fast path, legal fixed width and alignment; the oracle is the input value plus guard bytes / ASan red zones; gcc -O2 -DNDEBUG, -O0, ASan+UBSan, clang and -march=native builds must produce identical digests. Sampling of 2^64, not proof.",
         "trusts: gcc/clang sanitizer runtimes, the harness guard-buffer logic; x86-64 little-endian only", "2/C01"),
 "C04": ("exploration", "differential monitor against independently written reference encoders; README/constant tables parsed at run time",
         "Library bytes are compared byte for byte with reference encoders written from the documented formats (no shared code) for the same value stream as C01, reference bytes are decoded by every library decoder, len(v)<=len(v+1) is checked at every value, per-length maxima are measured by binary search and compared with header constants and both README tables.",
         "trusts: harness/ref_scalar.h as a faithful reading of the documented formats", "2/C04"),
 "C05": ("exploration", "order monitor: adjacent/perturbed pairs and memcmp-sort tests of scalar keys and tuples",
         "Numeric order is the oracle; pairs around every length boundary, pairs differing in one payload byte, and memcmp sorts of thousands of keys (each sort certifies all pairs of its sample, including prefix-freeness) for scalars and 2-4 tuples.", "trusts: libc qsort/memcmp", "2/C05"),
 "C12": ("exploration", "__int128 reference model + exact-size slot under ASan / guard bytes",
         "Millions of (stored, width, amount) triples aimed at width boundaries and the signed-overflow edges run through tagged/external NoGrow/Grow; the slot is an exact-size heap block under ASan and guard-surrounded elsewhere; result, return width and untouched bytes are compared with an __int128 model.", "trusts: sanitizer runtime, harness model", "2/C12"),
 "C02": ("exploration", "round-trip monitor with exact-size heap copies under ASan/UBSan, garbage-tail differential elsewhere, cross-build digests (scalar vs -march=native SIMD)",
         "Every array codec variant (23 encoder/decoder pairings) on arrays from 15 content models and boundary-straddling lengths: decode(encode(A)) == A with the decoder reading from an exact-size heap copy of exactly the bytes the encoder reported (over-read = ASan abort) or from copies with two different garbage tails (result must not depend on them); random-access, block and run readers must agree with the full decoder; digests of the encoded bytes must agree across gcc -O2, -O0, ASan, clang and the SIMD build.",
         "trusts: sanitizer runtime; decoders are given the original count; dictionary inputs <= 2^20 distinct values", "2/C02"),
 "C03": ("exploration", "memory oracle: destination sized exactly by the library's own sizing function (ASan red zone / 4 KiB verified guard)",
         "For each encoder the destination is exactly the advertised number of bytes; ASan aborts on the first byte written past it and the other configurations verify a 4 KiB guard; returned length <= advertised, == advertised for exact predictors. Worst-case generators per bound; a run in which a bound was never approached (written/advertised < 0.9) is inconclusive.",
         "trusts: sanitizer runtime; float bound is loose by construction (max observed ratio reported)", "2/C03"),
 "C06": ("exploration", "round-trip monitor over a decision-tree-aimed generator; selected leaf and guard outcomes observed through the public analysis API",
         "Arrays are generated on both sides of every guard of the selection tree; automatic encode/decode and every forced encoding in its domain must reproduce the array exactly (exact-size heap copies under ASan); first byte, meta.encodingType and GetEncodingType must agree. Every leaf must be selected >= 100 times, the sampled-uniqueness path and a payload > 1 MiB must be exercised.",
         "trusts: sanitizer runtime; dictionary inputs <= 2^20 distinct values", "2/C06"),
 "C07": ("exploration", "bit-exactness and error-bound monitor over bit-field-generated doubles; cross-build digests",
         "Doubles built from sign/exponent/mantissa fields (carry mantissas, exponent spreads > 255, all special kinds) through 4 precisions x 3 modes and EncodeAuto: FULL and specials bit-identical, reduced precision within the published bound 2^-mantissa_bits (long double arithmetic), EncodeAuto within the requested error; encoded bytes must agree across builds.",
         "trusts: long double arithmetic of the host; infinity accepted only when |x|(1+bound) > DBL_MAX", "2/C07"),
 "C13": ("exploration", "memory oracle: output buffer of exactly `capacity` elements (ASan red zone / verified guard), prefix oracle on the return value",
         "Valid encodings x capacities {0,1,2,n/2,n-1,n,block edges}: the output is an exact-size heap block (malloc(0) for capacity 0) under ASan with and without NDEBUG, guard-verified elsewhere; r == 0 or r <= capacity with a correct prefix.",
         "trusts: sanitizer runtime; capacities never exceed the encoded count (formats without terminator)", "2/C13"),
 "C16": ("exploration", "ground-truth monitor: metadata vs input, vs two-pattern destination diff, vs reference layout parsers; poisoned output structs (MSan on a subset)",
         "Reported counts, minima, widths, run/block counts, bit totals, exception counts and encoded sizes are compared with ground truth computed from the input, from the bytes actually modified in the destination and from independent parsers of the documented layouts; output-only structs are pre-poisoned so unwritten fields are detected.",
         "trusts: harness reference parsers; in/out structs are passed zeroed as the API requires", "2/C16"),
 "C08": ("exploration", "model-based history checking (65536-bit reference set) with a link-time allocation monitor for leaks, under ASan/UBSan",
         "Thousands of seeded histories of 50-400 operations over up to 8 live bitmaps are replayed against a mathematical set; return values, cardinality, emptiness, memberships every step and full export/iteration at container changes; the workload is aimed at cardinality 4096 crossings, ranges > 4096 on non-empty and RUNS-typed objects, operations after deserialisation; every container transition must be observed >= 50 times.",
         "trusts: sanitizer runtime, reference bitset, malloc wrapper", "2/C08"),
 "C09": ("exploration", "exhaustive instantiation of the template (118 configurations incl. 8- and 16-bit length types filled to their maximum) + whole-storage before/after diff against a bit-exact layout model, exact-size storage under ASan",
         "All legal (bits, slot type, compact, micro-promotion) instantiations are generated and each is driven with Set/SetIncr/SetHalf at boundary and random positions over random prior contents, then sorted and positional histories against a reference array; exhaustive over configurations, sampled over values/positions.",
         "trusts: the legality rule bits <= slotbits + gcd(bits, slotbits); interior reads of neighbouring slots are not observable", "2/C09"),
 "C10": ("exploration", "whole-buffer before/after comparison against the documented header/cell layout, exact-size buffers under ASan, all 72 header width pairs",
         "Pack/Unpack on nibble boundaries and >= 2^32 refusals; every (row width, col width) header combination with min/max/random values into an exact-size destination; matrices of every entry kind (bit, 1-8 byte unsigned, float, double, half-float with F16C) with 100-500 writes each, every write checked for read-back and for changing nothing but the addressed cell.",
         "trusts: harness layout arithmetic; byte cells behind 5-8 byte column counts are not backed by memory (bit vectors > 2^32 columns in the thorough tier)", "2/C10"),
 "C11": ("exploration", "exhaustive (offset mod word, width) enumeration for the documented word types, the 16/8-bit pairs and each slot type with the default value type; whole-stream diff against an MSB-first bit model; exact-size streams under ASan",
         "All (offset, width) pairs of every word type (64x64, 32x32, 16x16, 8x8) at three word positions, run-time and compile-time-literal widths, offsets around 2^31..2^34 in lazily mapped streams, with many (value, prior contents) samples; the stream ends at the last overlapped word so touching any other word aborts under ASan; signed helper round trips; 1000-field append sequences.",
         "trusts: sanitizer runtime, bit model", "2/C11"),
 "C14": ("exploration", "hostile-input monitor: exact-size heap copies of the declared bytes (ASan), per-input alarm, link-time allocation-size monitor",
         "Valid encodings, every truncation (plus the last 16 bytes of long ones), mutations, random strings and structured hostile headers (wrapping counts, boundary-size dictionaries with extreme indices, complete-looking bitmap containers the encoder never produces) for the seven length-taking entry points; any read at/after the declared size aborts under ASan (with and without NDEBUG); Elias bit budgets are checked by flipping the undeclared bits of the last byte; allocation requests above max(16 MiB, 64 L) and hangs are violations; both accepted and rejected outcomes must be observed per entry point.",
         "trusts: sanitizer runtime; 10 s alarm as termination bound", "2/C14"),
 "C15": ("exploration", "perturbed-history differential (9 worlds: order, preceding calls, stack painting, heap residue) + MSan + cross-build digests (+ memcheck in thorough)",
         "The same deterministic list of API calls is executed in nine worlds and five build configurations; per-call result digests must be identical everywhere; the stack is painted with the very value the code would compare against (the call's element count); MSan checks every library output the harness consumes; a crash in any world is a violation.",
         "trusts: MSan/ASan runtimes; call list covers the API groups listed in the evidence", "2/C15"),
 "C17": ("exploration", "ThreadSanitizer on barrier-released, permuted and cold-start multi-thread workloads over mprotect-ed read-only shared inputs + sequential-reference differential + overlap recorder (helgrind in thorough)",
         "2-16 threads run every codec/scalar/float/packed/bitstream op over shared inputs (up to 70001 elements, 64-bit at 0/8 and 32-bit at 0/4/8/12 mod 16) that are mapped read-only before the first thread starts, with private outputs; cold-start processes release all threads on the first library call of the process; lock-step rounds put all threads inside the same function, permuted rounds mix ops; TSan reports with a frame in the library are violations, results are compared with sequential references, and the evidence lists which (op, op') pairs were actually observed overlapping.",
         "trusts: TSan's happens-before model over the produced schedules (not all interleavings)", "2/C17"),
 "C18": ("fault_enumeration", "link-time allocation-failure injection (--wrap of every libc allocation entry point), exhaustive over failure position k per scenario, one forked child per fault, under ASan",
         "For 306 (allocating API x input) scenarios the k-th allocation is failed for every k = 1..N in a forked child: no crash, no leaked block, success only with correct output, long-lived objects consistent and usable afterwards; the set of allocation call sites that were failed is resolved with addr2line and compared with the malloc/calloc/realloc sites of the five anchored files.",
         "trusts: malloc wrapper, sanitizer runtime; single-fault model (one failing allocation per execution)", "2/C18"),
}

def main():
    props_all = [json.loads(l)["id"] for l in open(os.path.join(V, "properties.jsonl"))]
    checks = []
    na = []
    for pid in props_all:
        if pid in CHECKS and hasattr(props, pid):
            lvl, tech, text, note, ref = CHECKS[pid]
            checks.append(dict(property_id=pid, quick_cmd="./check %s --tier quick" % pid,
                               thorough_cmd="./check %s --tier thorough" % pid,
                               evidence_file="/verif/evidence/%s.json" % pid,
                               replay_cmd_template="./check replay {path}", engine="runtime-monitor",
                               level_claimed=dict(category=lvl, text=text, design_ref="DESIGN.md §" + ref),
                               level_note=note, technique=tech))
        else:
            na.append(dict(property_id=pid, reason="check not yet built in this commit (work in progress; planned with the runtime-monitoring family per DESIGN.md §2)"))
    m = dict(version=1,
             setup_cmd="python3 tools/setup.py",
             hooks=dict(guard="MATTSTA_VARINT_VERIF", enable="checks compile /repo/src/*.c directly with -DMATTSTA_VARINT_VERIF=1 (no hook code exists; see DESIGN.md §1.2)",
                        baseline_off_cmd="cmake -S /repo -B /repo/_build -G Ninja -DCMAKE_BUILD_TYPE=RelWithDebInfo >/dev/null && cmake --build /repo/_build >/dev/null && ctest --test-dir /repo/_build -j8 --timeout 900",
                        source_commits=HOOK_COMMITS, add_only=True),
             engines=[dict(name="runtime-monitor", path="/verif/check", serves_properties=[c["property_id"] for c in checks],
                           kind_free_text="python orchestrator + C drivers (workload generators and monitors) compiled against /repo/src in several sanitizer/compiler configurations")],
             checks=checks, not_applicable=na,
             notes="Runtime monitoring and sanitizers only. Exit 0 held / 1 violation / 2 harness failure or inconclusive. See DESIGN.md.")
    json.dump(m, open(os.path.join(V, "MANIFEST.json"), "w"), indent=1)
    print("wrote MANIFEST.json: %d checks, %d not_applicable" % (len(checks), len(na)))

main()
