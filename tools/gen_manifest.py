#!/usr/bin/env python3
"""Regenerates /verif/MANIFEST.json from the table below (keeps it schema-valid)."""
import json, os, sys
V = os.path.dirname(os.path.dirname(os.path.abspath(__file__)))
sys.path.insert(0, V)
from vlib import props

HOOK_COMMITS = []

CHECKS = {
 "C01": ("exploration", "guard-buffer + exact-size-heap (ASan/UBSan) monitors over enumerated and boundary-biased values, cross-configuration digests",
         "Every value 0..2^20 (2^26 thorough) and millions of boundary-biased 64-bit samples pass through every family, entry point, macro fast path, legal fixed width and alignment; the oracle is the input value plus guard bytes / ASan red zones; gcc -O2 -DNDEBUG, -O0, ASan+UBSan, clang and -march=native builds must produce identical digests. Sampling of 2^64, not proof.",
         "trusts: gcc/clang sanitizer runtimes, the harness guard-buffer logic; x86-64 little-endian only", "2/C01"),
 "C04": ("exploration", "differential monitor against independently written reference encoders; README/constant tables parsed at run time",
         "Library bytes are compared byte for byte with reference encoders written from the documented formats (no shared code) for the same value stream as C01, reference bytes are decoded by every library decoder, len(v)<=len(v+1) is checked at every value, per-length maxima are measured by binary search and compared with header constants and both README tables.",
         "trusts: harness/ref_scalar.h as a faithful reading of the documented formats", "2/C04"),
 "C05": ("exploration", "order monitor: adjacent/perturbed pairs and memcmp-sort tests of scalar keys and tuples",
         "Numeric order is the oracle; pairs around every length boundary, pairs differing in one payload byte, and memcmp sorts of thousands of keys (each sort certifies all pairs of its sample, including prefix-freeness) for scalars and 2-4 tuples.", "trusts: libc qsort/memcmp", "2/C05"),
 "C12": ("exploration", "__int128 reference model + exact-size slot under ASan / guard bytes",
         "Millions of (stored, width, amount) triples aimed at width boundaries and the signed-overflow edges run through tagged/external NoGrow/Grow; the slot is an exact-size heap block under ASan and guard-surrounded elsewhere; result, return width and untouched bytes are compared with an __int128 model.", "trusts: sanitizer runtime, harness model", "2/C12"),
}

def main():
    props_all = [json.loads(l)["id"] for l in open(os.path.join(V, "properties.jsonl"))]
    checks = []
    na = []
    for pid in props_all:
        if pid in CHECKS and hasattr(props, pid):
            lvl, tech, text, note, ref = CHECKS[pid]
            checks.append(dict(property_id=pid, quick_cmd="./check %s --tier quick" % pid,
                               thorough_cmd="./check %s --tier thorough" % pid,
                               evidence_file="/verif/evidence/%s.json" % pid,
                               replay_cmd_template="./check replay {path}", engine="runtime-monitor",
                               level_claimed=dict(category=lvl, text=text, design_ref="DESIGN.md §" + ref),
                               level_note=note, technique=tech))
        else:
            na.append(dict(property_id=pid, reason="check not yet built in this commit (work in progress; planned with the runtime-monitoring family per DESIGN.md §2)"))
    m = dict(version=1,
             setup_cmd="python3 tools/setup.py",
             hooks=dict(guard="MATTSTA_VARINT_VERIF", enable="checks compile /repo/src/*.c directly with -DMATTSTA_VARINT_VERIF=1 (no hook code exists; see DESIGN.md §1.2)",
                        baseline_off_cmd="cmake -S /repo -B /repo/_build -G Ninja -DCMAKE_BUILD_TYPE=RelWithDebInfo >/dev/null && cmake --build /repo/_build >/dev/null && ctest --test-dir /repo/_build -j8 --timeout 900",
                        source_commits=HOOK_COMMITS, add_only=True),
             engines=[dict(name="runtime-monitor", path="/verif/check", serves_properties=[c["property_id"] for c in checks],
                           kind_free_text="python orchestrator + C drivers (workload generators and monitors) compiled against /repo/src in several sanitizer/compiler configurations")],
             checks=checks, not_applicable=na,
             notes="Runtime monitoring and sanitizers only. Exit 0 held / 1 violation / 2 harness failure or inconclusive. See DESIGN.md.")
    json.dump(m, open(os.path.join(V, "MANIFEST.json"), "w"), indent=1)
    print("wrote MANIFEST.json: %d checks, %d not_applicable" % (len(checks), len(na)))

main()
