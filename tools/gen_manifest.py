#!/usr/bin/env python3
"""Regenerates /verif/MANIFEST.json from the table below (keeps it schema-valid)."""
import json, os, sys
V = os.path.dirname(os.path.dirname(os.path.abspath(__file__)))
sys.path.insert(0, V)
from vlib import props

HOOK_COMMITS = []

CHECKS = {
 "C01": ("exploration", "guard-buffer + exact-size-heap (ASan/UBSan) monitors over enumerated and boundary-biased values, cross-configuration digests",
         "Every value 0..2^20 (2^26 thorough) and millions of boundary-biased 64-bit samples pass through every family, entry point, macro fast path, legal fixed width and alignment; the oracle is the input value plus guard bytes / ASan red zones; gcc -O2 -DNDEBUG, -O0, ASan+UBSan, clang and -march=native builds must produce identical digests. Sampling of 2^64, not proof.",
         "trusts: gcc/clang sanitizer runtimes, the harness guard-buffer logic; x86-64 little-endian only", "2/C01"),
 "C04": ("exploration", "differential monitor against independently written reference encoders; README/constant tables parsed at run time",
         "Library bytes are compared byte for byte with reference encoders written from the documented formats (no shared code) for the same value stream as C01, reference bytes are decoded by every library decoder, len(v)<=len(v+1) is checked at every value, per-length maxima are measured by binary search and compared with header constants and both README tables.",
         "trusts: harness/ref_scalar.h as a faithful reading of the documented formats", "2/C04"),
 "C05": ("exploration", "order monitor: adjacent/perturbed pairs and memcmp-sort tests of scalar keys and tuples",
         "Numeric order is the oracle; pairs around every length boundary, pairs differing in one payload byte, and memcmp sorts of thousands of keys (each sort certifies all pairs of its sample, including prefix-freeness) for scalars and 2-4 tuples.", "trusts: libc qsort/memcmp", "2/C05"),
 "C12": ("exploration", "__int128 reference model + exact-size slot under ASan / guard bytes",
         "Millions of (stored, width, amount) triples aimed at width boundaries and the signed-overflow edges run through tagged/external NoGrow/Grow; the slot is an exact-size heap block under ASan and guard-surrounded elsewhere; result, return width and untouched bytes are compared with an __int128 model.", "trusts: sanitizer runtime, harness model", "2/C12"),
 "C02": ("exploration", "round-trip monitor with exact-size heap copies under ASan/UBSan, garbage-tail differential elsewhere, cross-build digests (scalar vs -march=native SIMD)",
         "Every array codec variant (23 encoder/decoder pairings) on arrays from 15 content models and boundary-straddling lengths: decode(encode(A)) == A with the decoder reading from an exact-size heap copy of exactly the bytes the encoder reported (over-read = ASan abort) or from copies with two different garbage tails (result must not depend on them); random-access, block and run readers must agree with the full decoder; digests of the encoded bytes must agree across gcc -O2, -O0, ASan, clang and the SIMD build.",
         "trusts: sanitizer runtime; decoders are given the original count; dictionary inputs <= 2^20 distinct values", "2/C02"),
 "C03": ("exploration", "memory oracle: destination sized exactly by the library's own sizing function (ASan red zone / 4 KiB verified guard)",
         "For each encoder the destination is exactly the advertised number of bytes; ASan aborts on the first byte written past it and the other configurations verify a 4 KiB guard; returned length <= advertised, == advertised for exact predictors. Worst-case generators per bound; a run in which a bound was never approached (written/advertised < 0.9) is inconclusive.",
         "trusts: sanitizer runtime; float bound is loose by construction (max observed ratio reported)", "2/C03"),
 "C06": ("exploration", "round-trip monitor over a decision-tree-aimed generator; selected leaf and guard outcomes observed through the public analysis API",
         "Arrays are generated on both sides of every guard of the selection tree; automatic encode/decode and every forced encoding in its domain must reproduce the array exactly (exact-size heap copies under ASan); first byte, meta.encodingType and GetEncodingType must agree. Every leaf must be selected >= 100 times, the sampled-uniqueness path and a payload > 1 MiB must be exercised.",
         "trusts: sanitizer runtime; dictionary inputs <= 2^20 distinct values", "2/C06"),
 "C07": ("exploration", "bit-exactness and error-bound monitor over bit-field-generated doubles; cross-build digests",
         "Doubles built from sign/exponent/mantissa fields (carry mantissas, exponent spreads > 255, all special kinds) through 4 precisions x 3 modes and EncodeAuto: FULL and specials bit-identical, reduced precision within the published bound 2^-mantissa_bits (long double arithmetic), EncodeAuto within the requested error; encoded bytes must agree across builds.",
         "trusts: long double arithmetic of the host; infinity accepted only when |x|(1+bound) > DBL_MAX", "2/C07"),
 "C13": ("exploration", "memory oracle: output buffer of exactly `capacity` elements (ASan red zone / verified guard), prefix oracle on the return value",
         "Valid encodings x capacities {0,1,2,n/2,n-1,n,block edges}: the output is an exact-size heap block (malloc(0) for capacity 0) under ASan with and without NDEBUG, guard-verified elsewhere; r == 0 or r <= capacity with a correct prefix.",
         "trusts: sanitizer runtime; capacities never exceed the encoded count (formats without terminator)", "2/C13"),
 "C16": ("exploration", "ground-truth monitor: metadata vs input, vs two-pattern destination diff, vs reference layout parsers; poisoned output structs (MSan on a subset)",
         "Reported counts, minima, widths, run/block counts, bit totals, exception counts and encoded sizes are compared with ground truth computed from the input, from the bytes actually modified in the destination and from independent parsers of the documented layouts; output-only structs are pre-poisoned so unwritten fields are detected.",
         "trusts: harness reference parsers; in/out structs are passed zeroed as the API requires", "2/C16"),
}

def main():
    props_all = [json.loads(l)["id"] for l in open(os.path.join(V, "properties.jsonl"))]
    checks = []
    na = []
    for pid in props_all:
        if pid in CHECKS and hasattr(props, pid):
            lvl, tech, text, note, ref = CHECKS[pid]
            checks.append(dict(property_id=pid, quick_cmd="./check %s --tier quick" % pid,
                               thorough_cmd="./check %s --tier thorough" % pid,
                               evidence_file="/verif/evidence/%s.json" % pid,
                               replay_cmd_template="./check replay {path}", engine="runtime-monitor",
                               level_claimed=dict(category=lvl, text=text, design_ref="DESIGN.md §" + ref),
                               level_note=note, technique=tech))
        else:
            na.append(dict(property_id=pid, reason="check not yet built in this commit (work in progress; planned with the runtime-monitoring family per DESIGN.md §2)"))
    m = dict(version=1,
             setup_cmd="python3 tools/setup.py",
             hooks=dict(guard="MATTSTA_VARINT_VERIF", enable="checks compile /repo/src/*.c directly with -DMATTSTA_VARINT_VERIF=1 (no hook code exists; see DESIGN.md §1.2)",
                        baseline_off_cmd="cmake -S /repo -B /repo/_build -G Ninja -DCMAKE_BUILD_TYPE=RelWithDebInfo >/dev/null && cmake --build /repo/_build >/dev/null && ctest --test-dir /repo/_build -j8 --timeout 900",
                        source_commits=HOOK_COMMITS, add_only=True),
             engines=[dict(name="runtime-monitor", path="/verif/check", serves_properties=[c["property_id"] for c in checks],
                           kind_free_text="python orchestrator + C drivers (workload generators and monitors) compiled against /repo/src in several sanitizer/compiler configurations")],
             checks=checks, not_applicable=na,
             notes="Runtime monitoring and sanitizers only. Exit 0 held / 1 violation / 2 harness failure or inconclusive. See DESIGN.md.")
    json.dump(m, open(os.path.join(V, "MANIFEST.json"), "w"), indent=1)
    print("wrote MANIFEST.json: %d checks, %d not_applicable" % (len(checks), len(na)))

main()
