#!/bin/bash
# usage: tools/run_all.sh [tier] [seeds...]   — runs every check, prints one line per (seed, property)
cd "$(dirname "$0")/.."
tier=${1:-quick}; shift
seeds=${@:-1}
for s in $seeds; do
  for p in C01 C02 C03 C04 C05 C06 C07 C08 C09 C10 C11 C12 C13 C14 C15 C16 C17 C18; do
    t0=$(date +%s)
    out=$(VERIF_SEED=$s ./check $p --tier $tier 2>&1); rc=$?
    t1=$(date +%s)
    echo "seed=$s $p rc=$rc $((t1-t0))s $(echo "$out" | grep -E 'RESULT|VIOLATION|INCONCLUSIVE|HARNESS' | head -3 | tr '\n' ' ' | cut -c1-300)"
  done
done
