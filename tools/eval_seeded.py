#!/usr/bin/env python3
"""Evaluate seeded defects (/verif/seeded/<id>/{patch.diff,demo.c,meta.json}).

  tools/eval_seeded.py confirm <id>   apply to a scratch worktree of /repo, build, run the pinned suite (must pass),
                                      run the demonstration with and without the patch (must fail / pass)
  tools/eval_seeded.py check <id> [--tier quick|thorough] [--props C01,C04]
                                      run the property's check(s) against the patched scratch worktree (VERIF_REPO)
  tools/eval_seeded.py inrepo <id>    same as check, but the way the brief describes it: git -C /repo apply, run, git checkout
  tools/eval_seeded.py all            check every seeded defect and rewrite seeded/RESULTS.md

Scratch worktrees live under /tmp/evalwt and are removed (with their build output) after each use."""
import hashlib
import json
import os
import shutil
import subprocess
import sys
import time

V = os.path.dirname(os.path.dirname(os.path.abspath(__file__)))
SEEDED = os.path.join(V, "seeded")
WT = "/tmp/evalwt"


def sh(cmd, **kw):
    return subprocess.run(cmd, shell=isinstance(cmd, str), stdout=subprocess.PIPE, stderr=subprocess.STDOUT, text=True, **kw)


def meta(i):
    return json.load(open(os.path.join(SEEDED, i, "meta.json")))


def make_wt(i, patched=True):
    d = os.path.join(WT, i + ("" if patched else "-clean"))
    sh("git -C /repo worktree remove --force %s" % d)
    shutil.rmtree(d, ignore_errors=True)
    os.makedirs(WT, exist_ok=True)
    r = sh("git -C /repo worktree add -q --detach %s HEAD" % d)
    if r.returncode:
        raise SystemExit("worktree failed: " + r.stdout)
    if patched:
        r = sh("git -C %s apply %s" % (d, os.path.join(SEEDED, i, "patch.diff")))
        if r.returncode:
            raise SystemExit("patch does not apply: " + r.stdout)
    return d


def drop_wt(d):
    sh("git -C /repo worktree remove --force %s" % d)
    shutil.rmtree(d, ignore_errors=True)
    tag = hashlib.sha1(os.path.abspath(d).encode() + b"\0").hexdigest()[:14][:6]
    shutil.rmtree(os.path.join(V, "build", tag), ignore_errors=True)


def run_demo(i, d):
    m = meta(i)
    exe = os.path.join(d, "_demo")
    cmd = m["demo_build"].replace("{repo}", d).replace("{demo}", os.path.join(SEEDED, i, m.get("demo", "demo.c"))).replace("{exe}", exe)
    r = sh(cmd)
    if r.returncode:
        return None, "demo build failed: " + r.stdout[-400:]
    r = sh(exe, timeout=600, cwd=d)
    return r.returncode, r.stdout[-300:]


def confirm(i):
    d = make_wt(i, True)
    try:
        r = sh("cd %s && cmake -S . -B _build -G Ninja -DCMAKE_BUILD_TYPE=RelWithDebInfo >/dev/null && cmake --build _build 2>&1 | tail -3 && ctest --test-dir _build -j8 2>&1 | tail -3" % d)
        suite_ok = "100% tests passed" in r.stdout
        rc_p, out_p = run_demo(i, d)
    finally:
        drop_wt(d)
    d = make_wt(i, False)
    try:
        rc_c, out_c = run_demo(i, d)
    finally:
        drop_wt(d)
    ok = suite_ok and rc_p not in (0, None) and rc_c == 0
    print("%s: suite_passes_with_patch=%s demo_with_patch_rc=%s demo_clean_rc=%s => %s" % (i, suite_ok, rc_p, rc_c, "CONFIRMED" if ok else "NOT CONFIRMED"))
    if not ok:
        print("  patched demo:", out_p, "\n  clean demo:", out_c, "\n  suite:", r.stdout[-300:])
    return ok


def check(i, tier="quick", props=None, inrepo=False, restore=True):
    m = meta(i)
    props = props or m.get("check_with") or [m["property"]]
    res = {}
    if inrepo:
        r = sh("git -C /repo apply %s" % os.path.join(SEEDED, i, "patch.diff"))
        if r.returncode:
            raise SystemExit("patch does not apply to /repo: " + r.stdout)
        env = dict(os.environ)
        d = None
    else:
        d = make_wt(i, True)
        env = dict(os.environ, VERIF_REPO=d)
    try:
        for p in props:
            t0 = time.time()
            r = subprocess.run([os.path.join(V, "check"), p, "--tier", tier], stdout=subprocess.PIPE, stderr=subprocess.PIPE, text=True, env=env, cwd=V)
            keys = [l.split("key=")[1].split(" n=")[0] for l in r.stderr.splitlines() if "violation key=" in l]
            res[p] = dict(rc=r.returncode, violation_lines=r.stdout.count("VIOLATION property="), keys=keys[:8], wall_s=round(time.time() - t0, 1))
            print("%s vs %s (%s%s): rc=%d %s %s" % (i, p, tier, ", in /repo" if inrepo else "", r.returncode, "DETECTED" if r.returncode == 1 else "MISSED" if r.returncode == 0 else "INCONCLUSIVE", keys[:3]))
    finally:
        if inrepo:
            sh("git -C /repo checkout -- .")
        else:
            drop_wt(d)
        # evidence files were rewritten by runs against a modified tree: restore the committed ones
        if restore:
            sh("git -C %s checkout -- evidence" % V)
    return res


def main():
    a = sys.argv[1:]
    if not a:
        print(__doc__)
        return
    tier = a[a.index("--tier") + 1] if "--tier" in a else "quick"
    props = a[a.index("--props") + 1].split(",") if "--props" in a else None
    if a[0] == "confirm":
        confirm(a[1])
    elif a[0] in ("check", "inrepo"):
        check(a[1], tier, props, inrepo=a[0] == "inrepo")
    elif a[0] == "all":
        import concurrent.futures as cf
        ids = [i for i in sorted(os.listdir(SEEDED)) if os.path.exists(os.path.join(SEEDED, i, "meta.json"))]
        rows = []

        def one(i):
            return i, check(i, tier, props, restore=False)

        with cf.ThreadPoolExecutor(3) as ex:
            results = dict(ex.map(one, ids))
        sh("git -C %s checkout -- evidence" % V)
        det = 0
        for i in ids:
            m = meta(i)
            r = results[i]
            anyd = any(v["rc"] == 1 for v in r.values())
            det += anyd
            for pch, v in r.items():
                rows.append("| %s | %s | %s | %s | %s | %s | %s |" % (i, m["property"], m["what"], pch, tier,
                            "detected" if v["rc"] == 1 else "MISSED" if v["rc"] == 0 else "inconclusive", "; ".join(v["keys"][:2])))
        with open(os.path.join(SEEDED, "RESULTS.md"), "w") as f:
            f.write("# Seeded defects vs. checks (%s tier)\n\n%d of %d seeded defects are detected by at least one of the checks listed for them.\n\n"
                    "| seeded defect | breaks | change | checked with | tier | outcome | first violation keys |\n|---|---|---|---|---|---|---|\n" % (tier, det, len(ids))
                    + "\n".join(rows) + "\n")
        print("\n".join(rows))
        print("detected %d of %d" % (det, len(ids)))

main()
