#!/usr/bin/env python3
"""setup_cmd: verify the toolchain and pre-build the common configurations (offline)."""
import os, shutil, sys
V = os.path.dirname(os.path.dirname(os.path.abspath(__file__)))
sys.path.insert(0, V)
from vlib import core
for tool in ("gcc", "clang-14", "ar"):
    if not shutil.which(tool):
        print("missing tool", tool); sys.exit(2)
for d in ("evidence", "replays", "build"):
    os.makedirs(os.path.join(V, d), exist_ok=True)
for cfg in ("rel", "dbg", "asan", "clang"):
    core.build(cfg, "drv_scalar")
print("setup ok; native cfg available:", core.HAVE_NATIVE)
