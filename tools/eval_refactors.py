#!/usr/bin/env python3
"""No-alarm test: behaviour-preserving refactorings (refactors/<id>/patch.diff) must leave every relevant check silent.
   tools/eval_refactors.py [id ...]   -> refactors/RESULTS.md"""
import concurrent.futures as cf
import json
import os
import subprocess
import sys
sys.path.insert(0, os.path.dirname(os.path.abspath(__file__)))
V = os.path.dirname(os.path.dirname(os.path.abspath(__file__)))
R = os.path.join(V, "refactors")
CHECKS = {"scalar": ["C01", "C04", "C05", "C12", "C15", "C17"],
          "arrays1": ["C02", "C03", "C06", "C13", "C15", "C16", "C17", "C18"],
          "arrays2": ["C02", "C03", "C04", "C06", "C13", "C14", "C15", "C16", "C17", "C18"],
          "adaptive": ["C03", "C06", "C07", "C13", "C15", "C16", "C17", "C18"],
          "bitmap": ["C06", "C08", "C13", "C14", "C15", "C18"],
          "misc": ["C09", "C10", "C11", "C17"]}


def sh(cmd):
    return subprocess.run(cmd, shell=True, stdout=subprocess.PIPE, stderr=subprocess.STDOUT, text=True)


def one(rid):
    group = rid.rsplit("-", 1)[0]
    d = "/tmp/evalwt/rf-" + rid
    sh("git -C /repo worktree remove --force %s; rm -rf %s" % (d, d))
    r = sh("git -C /repo worktree add -q --detach %s HEAD && git -C %s apply %s" % (d, d, os.path.join(R, rid, "patch.diff")))
    if r.returncode:
        return rid, {"apply": r.stdout[-200:]}
    out = {}
    env = dict(os.environ, VERIF_REPO=d)
    for p in CHECKS[group]:
        pr = subprocess.run([os.path.join(V, "check"), p, "--tier", "quick"], stdout=subprocess.PIPE, stderr=subprocess.PIPE, text=True, env=env, cwd=V)
        keys = [l.split("key=")[1].split(" n=")[0] for l in pr.stderr.splitlines() if "violation key=" in l]
        out[p] = dict(rc=pr.returncode, keys=keys[:4], tail=pr.stdout.strip().splitlines()[-1][:200] if pr.stdout.strip() else "")
        print(rid, p, "rc=%d" % pr.returncode, keys[:2], flush=True)
    sh("git -C /repo worktree remove --force %s; rm -rf %s" % (d, d))
    import hashlib, shutil
    shutil.rmtree(os.path.join(V, "build", hashlib.sha1(os.path.abspath(d).encode() + b"\0").hexdigest()[:14][:6]), ignore_errors=True)
    return rid, out


ids = sys.argv[1:] or sorted(i for i in os.listdir(R) if os.path.exists(os.path.join(R, i, "patch.diff")))
with cf.ThreadPoolExecutor(3) as ex:
    res = dict(ex.map(one, ids))
sh("git -C %s checkout -- evidence" % V)
rows = []
alarms = 0
for rid in ids:
    for p, v in res[rid].items():
        if p == "apply":
            rows.append("| %s | - | patch does not apply | %s |" % (rid, v))
            continue
        alarms += v["rc"] != 0
        rows.append("| %s | %s | %s | %s |" % (rid, p, "silent (exit 0)" if v["rc"] == 0 else "ALARM rc=%d" % v["rc"], "; ".join(v["keys"]) or v["tail"]))
with open(os.path.join(R, "RESULTS.md"), "w") as f:
    f.write("# Behaviour-preserving refactorings vs. checks (quick tier)\n\n%d refactorings, %d check runs, %d alarms.\n\n| refactoring | check | outcome | detail |\n|---|---|---|---|\n%s\n" % (len(ids), len(rows), alarms, "\n".join(rows)))
print("alarms:", alarms)
