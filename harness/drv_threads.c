/* drv_threads.c — C17: stateless codecs are safe to call concurrently.
 * Shared read-only inputs, private outputs; every op's digest is compared with the digest
 * of the same op computed sequentially before the threads started.  Run under TSan (reports
 * parsed by the orchestrator), plain builds (result comparison) and helgrind (thorough).
 *   --p0 threads  --p1 rounds */
#include "codecs.h"
#include "varintChained.h"
#include "varintChainedSimple.h"
#include "varintExternalBigEndian.h"
#include "varintFloat.h"
#include "varintSplit.h"
#include "varintSplitFull.h"
#include <pthread.h>
#include <sched.h>
#include <stdatomic.h>
#include <sys/mman.h>
#include <time.h>

#define PACK_STATIC
#define PACK_STORAGE_BITS 12
#define PACK_FUNCTION_PREFIX thr_pk_
#include "varintPacked.h"
#define PACK_STATIC
#define PACK_STORAGE_BITS 20
#define PACK_STORAGE_SLOT_STORAGE_TYPE uint16_t
#define PACK_STORAGE_COMPACT
#define PACK_FUNCTION_PREFIX thr_pkc_
#include "varintPacked.h"
#include "varintBitstream.h"

#define NIN 6           /* shared input arrays */
#define NEXTRA_OPS 12
#define NOPS (NCODECS + NEXTRA_OPS)
#define MAXT 16
#define INLEN 700
#define BIGN 10300 /* one shared input above 10000 elements: the sampled-uniqueness path of the adaptive analysis */

#define HUGEN 70001 /* shared inputs of more than 65536 elements (input slot 1 of every codec that takes them) */
/* every shared input lives in one arena that is made read-only (mprotect) before the first thread starts: the inputs
 * are `const` for the library, so a store into them - even one that is undone afterwards - faults */
#define ARENA_BYTES (64u << 20)
static uint8_t *ARENA;
static size_t ARENA_USED;
static void *ro_alloc(size_t bytes, size_t misalign) {
    size_t at = (ARENA_USED + 63) & ~(size_t)63;
    at += misalign;
    if (at + bytes > ARENA_BYTES) {
        fprintf(stderr, "shared-input arena too small\n");
        exit(2);
    }
    ARENA_USED = at + bytes;
    return ARENA + at;
}
static uint64_t *BIG2;            /* > 10000 elements, every 10th equal, the others varied */
static uint8_t *ELIAS[NIN][2];    /* shared Elias gamma / delta streams of IN[in][2] ... */
static size_t ELIAS_CUT[NIN][2];  /* ... and a bit count that ends inside the payload of one of their codes */
static size_t ELIAS_FULL[NIN][2];
static uint32_t *U32[NIN][2]; /* shared 32-bit inputs (any / non-decreasing), start address = 0, 4, 8, 12 mod 16 by input slot */
static uint64_t *BIG;
static uint64_t *HUGE_IN[3];
static __thread uint64_t *PRIV; /* per-thread domain-shaping copy */
static uint64_t *IN[NIN][3];  /* [input][domain flavour]: 0 any, 1 sorted, 2 >=1 ; read-only after setup */
static size_t INN[NIN];
static double *DIN[NIN];
static varintDict *SHARED_DICT[NIN];
static uint64_t REF[NOPS][NIN];
static const char *OPNAME[NOPS];

/* overlap recorder */
static _Atomic int CUR[MAXT];
static _Atomic uint64_t OVERLAP[NOPS][NOPS];
static _Atomic uint64_t CALLS, CALLS_OVERLAPPED, MISMATCHES;
static int NT = 4, ROUNDS = 10;
static bool COLD = false;
static int COLD_ROT = 0;
static uint64_t COLD_GOT[MAXT][NOPS][NIN];
static pthread_barrier_t BAR;

static const uint64_t *input_for(const codec_t *c, int in, size_t *n) {
    if (in == 0 && !strcmp(c->name, "adaptive.auto")) {
        *n = BIGN;
        return BIG;
    }
    if (in == 1 && c->domain != DOM_GROUP && c->domain != DOM_STRICT16 && !(c->maxlen && c->maxlen < HUGEN)) {
        *n = HUGEN - 1 - (size_t)(c - CODECS) % 3;
        return c->domain == DOM_SORTED ? HUGE_IN[1] : c->domain == DOM_GE1 ? HUGE_IN[2] : HUGE_IN[0];
    }
    size_t len = INN[in];
    if (c->maxlen && len > c->maxlen) len = c->maxlen;
    if (c->domain == DOM_GROUP && len > 64) len = 64;
    *n = len;
    if (c->domain == DOM_SORTED || c->domain == DOM_STRICT16) return IN[in][1];
    if (c->domain == DOM_GE1) return IN[in][2];
    return IN[in][0];
}

static int cmp_u32_thr(const void *a, const void *b) {
    uint32_t x = *(const uint32_t *)a, y = *(const uint32_t *)b;
    return (x > y) - (x < y);
}
/* run one op on shared input `in` with private scratch; returns a digest of everything produced */
static uint64_t run_op(int op, int in, uint8_t *scratch, uint64_t *outbuf) {
    digest_t d;
    digest_init(&d);
    if (op < (int)NCODECS) {
        const codec_t *c = &CODECS[op];
        size_t n;
        const uint64_t *a = input_for(c, in, &n);
        uint64_t *tmp32 = PRIV;
        if (c->elembits == 32 || c->domain == DOM_SIGNED_DELTA || c->domain == DOM_STRICT16) {
            /* private, domain-shaped copy (the shaping itself is harness code) */
            for (size_t i = 0; i < n; i++) tmp32[i] = c->elembits == 32 ? (a[i] & 0xffffffffu) : c->domain == DOM_STRICT16 ? (uint64_t)(i * 3 + (a[0] & 1)) : (a[i] >> 2);
            a = tmp32;
        }
        encinfo_t info;
        memset(&info, 0, sizeof info);
        size_t ret = c->encode(scratch, a, n, &info);
        digest_u64(&d, ret);
        digest_bytes(&d, scratch, ret);
        if (ret) {
            size_t rn = c->decode(scratch, ret, &info, outbuf, n);
            digest_u64(&d, rn);
            if (rn == n) digest_bytes(&d, outbuf, n * 8);
            if (c->getat) {
                uint64_t v = 0;
                c->getat(scratch, ret, &info, n, n / 2, &v);
                digest_u64(&d, v);
            }
        }
        return d.a ^ d.b;
    }
    const uint64_t *a = IN[in][0];
    size_t n = INN[in];
    switch (op - (int)NCODECS) {
    case 0: /* tagged + external */
        for (size_t i = 0; i < n; i++) {
            uint8_t b[16];
            uint64_t v = 0;
            int l = varintTaggedPut64(b, a[i]);
            varintTaggedGet64(b, &v);
            digest_u64(&d, v + (uint64_t)l + (uint64_t)varintTaggedLen(a[i]));
            varintWidth w = varintExternalPut(b, a[i]);
            digest_u64(&d, varintExternalGet(b, w));
            w = varintExternalBigEndianPut(b, a[i]);
            digest_u64(&d, varintExternalBigEndianGet(b, w));
        }
        break;
    case 1: /* chained + chained simple */
        for (size_t i = 0; i < n; i++) {
            uint8_t b[16];
            uint64_t v = 0;
            int l = varintChainedPutVarint(b, a[i]);
            varintChainedGetVarint(b, &v);
            digest_u64(&d, v + (uint64_t)l);
            l = varintChainedSimpleEncode64(b, a[i]);
            varintChainedSimpleDecode64(b, &v);
            digest_u64(&d, v + (uint64_t)l);
        }
        break;
    case 2: /* split macros */
        for (size_t i = 0; i < n; i++) {
            uint8_t b[16];
            varintWidth l = 0, l2 = 0;
            uint64_t v = 0;
            varintSplitPut_(b, l, a[i]);
            varintSplitGet_(b, l2, v);
            digest_u64(&d, v + l + l2);
            varintSplitFullPut_(b, l, a[i]);
            varintSplitFullGet_(b, l2, v);
            digest_u64(&d, v + l + l2);
        }
        break;
    case 3: { /* in-place add on a private slot */
        for (size_t i = 0; i < n; i++) {
            uint8_t b[16];
            varintTaggedPut64(b, a[i] >> 1);
            digest_u64(&d, varintTaggedAddGrow(b, (int64_t)(i * 7)));
            uint64_t v;
            varintTaggedGet64(b, &v);
            digest_u64(&d, v);
        }
        break;
    }
    case 4: { /* float */
        size_t fn = n > 300 ? 300 : n;
        size_t ret = varintFloatEncode(scratch, DIN[in], fn, (varintFloatPrecision)(in % 4), (varintFloatEncodingMode)(in % 3));
        digest_bytes(&d, scratch, ret);
        double *o = (double *)outbuf;
        size_t used = varintFloatDecode(scratch, fn, o);
        digest_u64(&d, used);
        digest_bytes(&d, o, fn * 8);
        break;
    }
    case 8: { /* adaptive analysis of the shared > 10000-element input (sampled uniqueness) */
        varintAdaptiveDataStats st;
        const uint64_t *big = (in & 1) ? BIG2 : BIG;
        varintAdaptiveAnalyze(big, BIGN - (size_t)in, &st);
        digest_u64(&d, st.uniqueCount);
        digest_u64(&d, st.minValue ^ st.maxValue ^ st.avgDelta);
        digest_u64(&d, (uint64_t)varintAdaptiveSelectEncoding(&st));
        digest_u64(&d, varintAdaptiveCountUnique(big, BIGN - 7 * (size_t)in));
        digest_u64(&d, varintAdaptiveCountUnique(big, BIGN - 10 * (size_t)in));
        break;
    }
    case 11: { /* Elias streams whose declared bit count ends inside a code's payload (a refused read), next to valid ones */
        for (int dl = 0; dl < 2 && ELIAS[in][0]; dl++) {
            size_t got = dl ? varintEliasDeltaDecodeArray(ELIAS[in][dl], ELIAS_CUT[in][dl], outbuf, n) : varintEliasGammaDecodeArray(ELIAS[in][dl], ELIAS_CUT[in][dl], outbuf, n);
            digest_u64(&d, got);
            digest_bytes(&d, outbuf, got * 8);
            size_t all = dl ? varintEliasDeltaDecodeArray(ELIAS[in][dl], ELIAS_FULL[in][dl], outbuf, n) : varintEliasGammaDecodeArray(ELIAS[in][dl], ELIAS_FULL[in][dl], outbuf, n);
            digest_u64(&d, all);
            digest_bytes(&d, outbuf, all * 8);
            varintBitReader br;
            varintBitReaderInit(&br, ELIAS[in][dl], ELIAS_CUT[in][dl]);
            for (int k = 0; k < 40 && varintBitReaderHasMore(&br, 1); k++) digest_u64(&d, dl ? varintEliasDeltaDecode(&br) : varintEliasGammaDecode(&br));
        }
        break;
    }
    case 9:
    case 10: { /* 32-bit block packers reading a shared 32-bit input directly (start address 0/4/8/12 mod 16) */
        bool delta = op - (int)NCODECS == 10;
        const uint32_t *u = U32[in][delta ? 1 : 0];
        varintBP128Meta bm;
        memset(&bm, 0, sizeof bm);
        size_t ret = delta ? varintBP128DeltaEncode32(scratch, u, n, &bm) : varintBP128Encode32(scratch, u, n, &bm);
        digest_u64(&d, ret);
        digest_bytes(&d, scratch, ret);
        uint32_t *o32 = (uint32_t *)outbuf;
        size_t dn = delta ? varintBP128DeltaDecode32(scratch, o32, n) : varintBP128Decode32(scratch, o32, n);
        digest_u64(&d, dn);
        digest_bytes(&d, o32, n * 4);
        break;
    }
    case 5: { /* shared prebuilt dictionary through const entry points */
        size_t ret = varintDictEncodeWithDict(scratch, SHARED_DICT[in], a, n);
        digest_bytes(&d, scratch, ret);
        digest_u64(&d, (uint64_t)varintDictFind(SHARED_DICT[in], a[n / 2]));
        digest_u64(&d, varintDictLookup(SHARED_DICT[in], 0));
        digest_u64(&d, varintDictEncodedSizeWithDict(SHARED_DICT[in], n));
        size_t dn = varintDictDecodeInto(scratch, ret, outbuf, n);
        digest_u64(&d, dn);
        break;
    }
    case 6: { /* packed arrays on private storage */
        memset(scratch, 0, 4096);
        for (uint32_t i = 0; i < 200; i++) thr_pk_12Set(scratch, i, (uint16_t)(a[i % n] & 0xfff));
        for (uint32_t i = 0; i < 200; i++) digest_u64(&d, thr_pk_12Get(scratch, i));
        memset(scratch, 0, 4096);
        uint32_t len = 0;
        for (uint32_t i = 0; i < 100; i++) {
            thr_pkc_20InsertSorted(scratch, len, (uint32_t)(a[i % n] & 0xfffff));
            len++;
        }
        for (uint32_t i = 0; i < len; i++) digest_u64(&d, thr_pkc_20Get(scratch, i));
        digest_u64(&d, (uint64_t)thr_pkc_20Member(scratch, len, (uint32_t)(a[3 % n] & 0xfffff)));
        break;
    }
    default: { /* bitstream on private storage */
        vbits *s = (vbits *)scratch;
        memset(s, 0, 4096);
        size_t off = 0;
        for (size_t i = 0; i < 200; i++) {
            size_t w = 1 + (a[i % n] % 64);
            varintBitstreamSet(s, off, w, w == 64 ? a[i % n] : (a[i % n] & ((1ULL << w) - 1)));
            off += w;
            if (off > 4096 * 8 - 130) break;
        }
        digest_bytes(&d, s, 4096);
        digest_u64(&d, varintBitstreamGet(s, 17, 33));
        break;
    }
    }
    return d.a ^ d.b;
}

typedef struct {
    int tid;
    uint64_t seed;
} targ_t;

static void *worker(void *p) {
    targ_t *t = p;
    rng_t r;
    rng_seed(&r, t->seed);
    uint8_t *scratch = malloc(scratch_size(HUGEN) + 8192);
    uint64_t *outbuf = malloc((HUGEN + 8) * 8);
    PRIV = malloc(HUGEN * 8);
    int order[NOPS];
    if (COLD) {
        /* cold start: no library function has run in this process yet (no sequential reference beforehand); every
         * op's first calls are made by all threads together, released by a barrier; results are judged afterwards */
        for (int k = 0; k < (int)NOPS; k++) {
            int op = (k + COLD_ROT) % (int)NOPS;
            for (int in = 0; in < NIN; in++) {
                if (in == 0) pthread_barrier_wait(&BAR);
                atomic_store(&CUR[t->tid], op + 1);
                for (int o = 0; o < NT; o++) {
                    int other = o == t->tid ? 0 : atomic_load(&CUR[o]);
                    if (other) atomic_fetch_add(&OVERLAP[op][other - 1], 1);
                }
                COLD_GOT[t->tid][op][in] = run_op(op, in, scratch, outbuf);
                atomic_store(&CUR[t->tid], 0);
                atomic_fetch_add(&CALLS, 1);
            }
        }
        free(scratch);
        free(outbuf);
        free(PRIV);
        return NULL;
    }
    for (int round = 0; round < ROUNDS; round++) {
        for (int i = 0; i < (int)NOPS; i++) order[i] = i;
        if (round & 1) { /* fully permuted round */
            for (int i = (int)NOPS; i > 1; i--) {
                int j = (int)rng_below(&r, (uint64_t)i);
                int x = order[i - 1];
                order[i - 1] = order[j];
                order[j] = x;
            }
        }
        pthread_barrier_wait(&BAR); /* barrier-released: all threads enter the same function together */
        for (int k = 0; k < (int)NOPS; k++) {
            int op = order[k];
            int in = (round + ((round & 1) ? (int)rng_below(&r, NIN) : 0)) % NIN;
            /* schedule diversity: yields / short sleeps between calls only */
            unsigned z = (unsigned)rng_below(&r, 16);
            if (z == 0) sched_yield();
            else if (z == 1) {
                struct timespec ts = {0, (long)rng_below(&r, 20000)};
                nanosleep(&ts, NULL);
            }
            atomic_store(&CUR[t->tid], op + 1);
            bool overlapped = false;
            for (int o = 0; o < NT; o++) {
                if (o == t->tid) continue;
                int other = atomic_load(&CUR[o]);
                if (other) {
                    atomic_fetch_add(&OVERLAP[op][other - 1], 1);
                    overlapped = true;
                }
            }
            uint64_t got = run_op(op, in, scratch, outbuf);
            atomic_store(&CUR[t->tid], 0);
            atomic_fetch_add(&CALLS, 1);
            if (overlapped) atomic_fetch_add(&CALLS_OVERLAPPED, 1);
            if (got != REF[op][in]) {
                if (atomic_fetch_add(&MISMATCHES, 1) < 20) {
                    fprintf(stderr, "MISMATCH op=%s input=%d thread=%d round=%d\n", OPNAME[op], in, t->tid, round);
                }
            }
            if ((round & 1) == 0) pthread_barrier_wait(&BAR); /* lock-step rounds: same op at the same time */
        }
    }
    free(scratch);
    free(outbuf);
    free(PRIV);
    return NULL;
}

int main(int argc, char **argv) {
    parse_args(argc, argv);
    /* no crash handlers under TSan builds: TSan owns the signal setup; elsewhere install them */
#if !defined(__SANITIZE_THREAD__)
    install_handlers();
#endif
    gen_init();
    NT = g_param[0] ? (int)g_param[0] : 4;
    if (NT > MAXT) NT = MAXT;
    ROUNDS = g_param[1] ? (int)g_param[1] : 10;
    rng_t r;
    rng_seed(&r, mix3(g_seed, g_shard, 0xC17));
    ARENA = mmap(NULL, ARENA_BYTES, PROT_READ | PROT_WRITE, MAP_PRIVATE | MAP_ANONYMOUS, -1, 0);
    if (ARENA == MAP_FAILED) {
        fprintf(stderr, "mmap failed\n");
        return 2;
    }
    static const int models[NIN] = {AM_MIXTURE, AM_CLUSTER_OUT, AM_FEWUNIQ, AM_RUNS, AM_ASC_SMALL, AM_BIGBASE};
    for (int i = 0; i < NIN; i++) {
        INN[i] = 64 + rng_below(&r, INLEN - 64);
        for (int f = 0; f < 3; f++) IN[i][f] = ro_alloc(INLEN * 8, (size_t)((i + f) & 1) * 8);
        gen_array_model(&r, models[i], IN[i][0], INLEN, 64);
        memcpy(IN[i][1], IN[i][0], INLEN * 8);
        qsort(IN[i][1], INN[i], 8, cmp_u64);
        for (size_t k = 0; k < INLEN; k++) IN[i][2][k] = IN[i][0][k] ? IN[i][0][k] : 1;
        DIN[i] = ro_alloc(INLEN * 8, (size_t)(i & 1) * 8);
        for (size_t k = 0; k < INLEN; k++) DIN[i][k] = ldexp(1.0 + (double)(IN[i][0][k] & 0xfffff) / 1048576.0, (int)(IN[i][0][k] >> 59) - 16);
        SHARED_DICT[i] = varintDictCreate();
        varintDictBuild(SHARED_DICT[i], IN[i][0], INN[i]);
    }
    for (int i = 0; i < NIN; i++) {
        for (int f = 0; f < 2; f++) {
            U32[i][f] = ro_alloc(INLEN * 4, (size_t)(i % 4) * 4);
            for (size_t k = 0; k < INLEN; k++) U32[i][f][k] = (uint32_t)IN[i][f][k];
        }
        qsort(U32[i][1], INN[i], 4, cmp_u32_thr);
    }
    for (int f = 0; f < 3; f++) HUGE_IN[f] = ro_alloc(HUGEN * 8, (size_t)(f & 1) * 8);
    gen_array_model(&r, AM_CLUSTER_OUT, HUGE_IN[0], HUGEN, 64);
    for (size_t k = 0; k < HUGEN; k++) if (k % 7 == 3) HUGE_IN[0][k] = HUGE_IN[0][k / 2]; /* repeated values: dictionaries stay smaller than the input */
    memcpy(HUGE_IN[1], HUGE_IN[0], HUGEN * 8);
    qsort(HUGE_IN[1], HUGEN, 8, cmp_u64);
    for (size_t k = 0; k < HUGEN; k++) HUGE_IN[2][k] = HUGE_IN[0][k] ? HUGE_IN[0][k] : 1;
    BIG2 = ro_alloc(BIGN * 8, 0);
    for (size_t k = 0; k < BIGN; k++) BIG2[k] = (k % 10 == 0) ? 777 : (rng_next(&r) % 3000) * 31 + 11;
    for (int i = 0; i < NIN && strcmp(g_mode, "c17cold"); i++) { /* (not in cold-start processes: building the streams calls the library) */
        for (int dl = 0; dl < 2; dl++) {
            uint8_t *tmp = malloc(INLEN * 20 + 64);
            varintEliasMeta em;
            size_t nbytes = dl ? varintEliasDeltaEncodeArray(tmp, IN[i][2], INN[i], &em) : varintEliasGammaEncodeArray(tmp, IN[i][2], INN[i], &em);
            ELIAS[i][dl] = ro_alloc(nbytes + 8, (size_t)i);
            memcpy(ELIAS[i][dl], tmp, nbytes);
            free(tmp);
            ELIAS_FULL[i][dl] = em.totalBits;
            /* cut inside the payload of the first code (past a third of the stream) whose value is >= 4 */
            size_t pos = 0, cut = em.totalBits / 2;
            for (size_t k = 0; k < INN[i]; k++) {
                uint64_t v = IN[i][2][k];
                size_t cb = dl ? varintEliasDeltaBits(v) : varintEliasGammaBits(v);
                if (k > INN[i] / 3 && v >= 4) {
                    cut = pos + cb - 1; /* all but the last payload bit */
                    break;
                }
                pos += cb;
            }
            ELIAS_CUT[i][dl] = cut;
        }
    }
    BIG = ro_alloc(BIGN * 8, 8);
    for (size_t k = 0; k < BIGN; k++) BIG[k] = (rng_next(&r) % 5000) * 977 + 5; /* many distinct values: the sampled estimate depends on which elements are sampled */
    for (int op = 0; op < (int)NOPS; op++) {
        static const char *const en[NEXTRA_OPS] = {"scalar.tagged+external", "scalar.chained", "scalar.split-macros", "scalar.inplace-add", "float", "dict.shared-const", "packed.private", "bitstream.private", "adaptive.analysis-over-10000", "bp128.32.shared-input", "bp128.delta32.shared-input", "elias.cut-inside-payload"};
        OPNAME[op] = op < (int)NCODECS ? CODECS[op].name : en[op - (int)NCODECS];
    }
    if (mprotect(ARENA, ARENA_BYTES, PROT_READ) != 0) {
        fprintf(stderr, "mprotect failed\n");
        return 2;
    }
    printf("STAT c17_shared_input_bytes_mapped_read_only %zu\n", ARENA_USED);
    COLD = !strcmp(g_mode, "c17cold");
    COLD_ROT = (int)((g_shard * 7 + g_seed) % NOPS);
    /* sequential reference results, before any thread exists (cold mode: afterwards) */
    if (!COLD) {
        uint8_t *scratch = malloc(scratch_size(HUGEN) + 8192);
        uint64_t *outbuf = malloc((HUGEN + 8) * 8);
        PRIV = malloc(HUGEN * 8);
        for (int op = 0; op < (int)NOPS; op++)
            for (int in = 0; in < NIN; in++) REF[op][in] = run_op(op, in, scratch, outbuf);
        free(scratch);
        free(outbuf);
        free(PRIV);
    }
    pthread_barrier_init(&BAR, NULL, (unsigned)NT);
    pthread_t th[MAXT];
    targ_t ta[MAXT];
    for (int t = 0; t < NT; t++) {
        ta[t].tid = t;
        ta[t].seed = mix3(g_seed, g_shard * 100 + (uint64_t)t, 0x7117);
        pthread_create(&th[t], NULL, worker, &ta[t]);
    }
    for (int t = 0; t < NT; t++) pthread_join(th[t], NULL);
    if (COLD) {
        uint8_t *scratch = malloc(scratch_size(HUGEN) + 8192);
        uint64_t *outbuf = malloc((HUGEN + 8) * 8);
        PRIV = malloc(HUGEN * 8);
        for (int op = 0; op < (int)NOPS; op++) {
            for (int in = 0; in < NIN; in++) {
                REF[op][in] = run_op(op, in, scratch, outbuf);
                for (int t = 0; t < NT; t++) {
                    if (COLD_GOT[t][op][in] != REF[op][in]) {
                        if (MISMATCHES++ < 20) fprintf(stderr, "MISMATCH (cold start) op=%s input=%d thread=%d\n", OPNAME[op], in, t);
                    }
                }
            }
        }
        printf("STAT c17_cold_start_ops %d\n", (int)NOPS);
    }
    /* report after join (no stdio inside the measured region) */
    uint64_t pairs = 0, selfpairs = 0;
    for (int a = 0; a < (int)NOPS; a++) {
        for (int b = 0; b < (int)NOPS; b++) {
            if (OVERLAP[a][b]) {
                pairs++;
                if (a == b) selfpairs++;
            }
        }
        if (!OVERLAP[a][a]) printf("STAT never_self_overlapped.%s 1\n", OPNAME[a]);
    }
    printf("STAT c17_calls %" PRIu64 "\nSTAT c17_calls_overlapping_another %" PRIu64 "\nMAX c17_distinct_overlapping_pairs %" PRIu64 "\nMAX c17_ops_that_overlapped_themselves %" PRIu64 "\n", (uint64_t)CALLS, (uint64_t)CALLS_OVERLAPPED, pairs, selfpairs);
    printf("MAX c17_ops_total %d\n", (int)NOPS);
    printf("STAT threads_x_rounds.%d %d\n", NT, ROUNDS);
    if (MISMATCHES) {
        g_case = 0;
        viol("C17:concurrent-result-differs-from-sequential", "%" PRIu64 " calls returned a different result than when run alone (threads=%d)", (uint64_t)MISMATCHES, NT);
    }
    printf("SAMPLE {\"threads\":%d,\"rounds\":%d,\"calls\":%" PRIu64 ",\"distinct_overlapping_op_pairs\":%" PRIu64 "}\n", NT, ROUNDS, (uint64_t)CALLS, pairs);
    printf("STAT distinct_nontrivial %" PRIu64 "\n", pairs);
    finish_run(1);
    return 0;
}
