/* drv_array_meta.h — C16 (metadata truth) and C06 (adaptive) cases; included by drv_array.c */

/* ---- small reference helpers ---- */
static size_t ref_count_runs(const uint64_t *a, size_t n) {
    size_t runs = n ? 1 : 0;
    for (size_t i = 1; i < n; i++) runs += a[i] != a[i - 1];
    return runs;
}
static int ref_group_width(uint64_t v) {
    int w = ref_bytes_needed(v);
    return w <= 1 ? 1 : w <= 2 ? 2 : w <= 4 ? 4 : 8;
}
static int ref_bits(uint64_t v) { return v ? 64 - __builtin_clzll(v) : 0; }
static bool g_colossal = false;
/* MemAvailable in MiB (0 when unknown) */
static size_t mem_available_mib(void) {
    FILE *f = fopen("/proc/meminfo", "r");
    if (!f) return 0;
    char line[200];
    size_t kb = 0;
    while (fgets(line, sizeof line, f)) {
        if (sscanf(line, "MemAvailable: %zu kB", &kb) == 1) break;
    }
    fclose(f);
    return kb / 1024;
}
/* highest modified offset + 1 when the encoder runs over two complementary fills */
static size_t bytes_actually_written(const codec_t *c, const uint64_t *a, size_t n, size_t cap, size_t *ret_out, encinfo_t *info_out, uint8_t **enc_out) {
    size_t hi = 0;
    uint8_t *keep = NULL;
    if (g_colossal) { /* one pass into untouched pages; the highest-modified-offset measurement is skipped */
        uint8_t *d = h_alloc_check(calloc(cap, 1), cap);
        memset(info_out, 0, sizeof *info_out);
        *ret_out = c->encode(d, a, n, info_out);
        *enc_out = d;
        return *ret_out;
    }
    for (int pass = 0; pass < 2; pass++) {
        uint8_t *d = malloc(cap);
        uint8_t fill = pass ? 0x5A : 0xA5;
        memset(d, fill, cap);
        encinfo_t info;
        memset(&info, 0, sizeof info);
        size_t r = c->encode(d, a, n, &info);
        size_t h = cap;
        while (h > 0 && d[h - 1] == fill) h--;
        if (h > hi) hi = h;
        if (pass == 0) {
            *ret_out = r;
            *info_out = info;
            keep = d;
        } else {
            free(d);
        }
    }
    *enc_out = keep;
    return hi;
}

#define M16(cond, cls, ...)                                                                                            \
    do {                                                                                                               \
        if (!(cond)) {                                                                                                 \
            viol(KEY(key, c, cls), __VA_ARGS__);                                                                       \
        }                                                                                                              \
        STAT_INC("c16_facts_checked");                                                                                 \
    } while (0)

static void c16_case(uint64_t idx, rng_t *r) {
    uint64_t g = idx * g_nshards + g_shard;
    /* codecs that report metadata */
    static int midx[64];
    static int nm = 0;
    if (!nm) {
        for (size_t i = 0; i < NCODECS; i++) {
            const char *nmv = CODECS[i].name;
            if (!strncmp(nmv, "for", 3) || !strncmp(nmv, "pfor", 4) || !strcmp(nmv, "group") || !strncmp(nmv, "rle", 3) || !strncmp(nmv, "elias", 5) || !strncmp(nmv, "bp128", 5) || !strncmp(nmv, "adaptive", 8)) midx[nm++] = (int)i;
        }
    }
    const codec_t *c = &CODECS[midx[g % (uint64_t)nm]];
    char key[200];
    input_t in;
    g_colossal = false;
    if (g_param[4] && idx == 0) {
        /* one colossal array for the codec named by --sparam: 2^29 + k elements whose frame needs 8-byte slots, so
         * that the value section alone exceeds 4 GiB (count x width no longer fits in 32 bits) */
        for (size_t i = 0; i < NCODECS; i++) if (!strcmp(CODECS[i].name, g_sparam)) c = &CODECS[i];
        size_t n = ((size_t)1 << 29) + 5 + rng_below(r, 1000);
        if (mem_available_mib() < 30000) {
            STAT_INC("c16_colossal_skipped_low_memory");
            return;
        }
        input_alloc(&in, n, 0);
        for (size_t i = 0; i < n; i++) in.a[i] = ((uint64_t)i << 34) ^ (i & 0xffff);
        in.model = AM_NMODELS;
        g_colossal = true;
        STAT_INC("c16_colossal_arrays");
    } else if (idx < g_param[3] && make_huge_input(c, g, r, &in, false)) {
        STAT_INC("c16_huge_arrays");
        g_colossal = false;
    } else {
    make_input(c, idx, r, &in);
    }
    if (!g_colossal && in.n < (1u << 20) && rng_chance(r, 1, 5) && c->domain != DOM_GROUP && c->domain != DOM_STRICT16) { /* counts whose tagged length changes, multiples of 128 */
        static const size_t lens[] = {240, 241, 2287, 2288, 128, 256, 384, 129, 257, 1, 2};
        size_t n = lens[rng_below(r, 11)];
        free(in.base);
        input_alloc(&in, n, g);
        gen_array_model(r, (int)rng_below(r, AM_NMODELS), in.a, n, (unsigned)c->elembits);
        in.n = shape_domain(c, r, in.a, n, AM_MIXTURE);
    }
    size_t n = in.n;
    const uint64_t *a = in.a;
    g_codec_cases[c - CODECS]++;
    if (distinct_add(&g_distinct, arr_sig(c, a, n)) && nontrivial(a, n)) STAT_INC("distinct_nontrivial");
    snprintf(g_sub, sizeof g_sub, "codec=%s n=%zu", c->name, n);
    g_ctx = c->encname;
    size_t ret = 0;
    encinfo_t info;
    uint8_t *enc = NULL;
    size_t cap = g_colossal ? n * 10 + 9000 : scratch_size(n);
    size_t written = bytes_actually_written(c, a, n, cap, &ret, &info, &enc);
    if (ret == 0) goto out;
    bool elias = !strncmp(c->name, "elias", 5);
    /* The returned size must not claim bytes the encoder never touched.  An encoder that also touches scratch bytes
     * beyond its returned size (word-wise stores, the Elias writer clearing its whole capacity) is inside what the
     * sizing functions advertise (C03's subject) and is only counted here. */
    M16(written >= ret, "returned-size-claims-bytes-never-written", "n=%zu returned %zu, highest modified offset+1 = %zu", n, ret, written);
    if (written > ret && !elias) STAT_INC("c16_encoders_touching_bytes_beyond_returned_size");
    uint64_t mn = a[0], mx = a[0];
    for (size_t i = 1; i < n; i++) { if (a[i] < mn) mn = a[i]; if (a[i] > mx) mx = a[i]; }

    if (!strncmp(c->name, "for", 3) && strcmp(c->name, "for.nullmeta")) {
        const varintFORMeta *m = &info.forMeta;
        M16(m->count == n, "FOR.meta.count", "n=%zu meta %zu", n, m->count);
        M16(m->minValue == mn && m->maxValue == mx && m->range == mx - mn, "FOR.meta.min-max-range", "n=%zu min %" PRIu64 "/%" PRIu64 " max %" PRIu64 "/%" PRIu64, n, m->minValue, mn, m->maxValue, mx);
        M16((int)m->offsetWidth == ref_bytes_needed(mx - mn), "FOR.meta.offsetWidth", "range %" PRIu64 " width %d", mx - mn, (int)m->offsetWidth);
        M16(m->encodedSize == ret, "FOR.meta.encodedSize", "meta %zu returned %zu", m->encodedSize, ret);
    }
    if (!strncmp(c->name, "for", 3)) {
        varintFORMeta rm;
        memset(&rm, 0xEE, sizeof rm);
        g_ctx = "varintFORReadMetadata";
        varintFORReadMetadata(enc, &rm);
        M16(rm.count == n && rm.minValue == mn && (int)rm.offsetWidth == ref_bytes_needed(mx - mn) && rm.encodedSize == ret, "FOR.ReadMetadata", "n=%zu count %zu min %" PRIu64 " width %d size %zu/%zu", n, rm.count, rm.minValue, (int)rm.offsetWidth, rm.encodedSize, ret);
        /* the size predictor applied to a meta obtained from the header reader (walking concatenated records) */
        M16(varintFORSize(&rm) == ret, "FOR.Size(meta-from-ReadMetadata)", "n=%zu size %zu written %zu", n, varintFORSize(&rm), ret);
        M16((int)varintFORComputeWidth(mx - mn) == ref_bytes_needed(mx - mn), "FOR.ComputeWidth", "range %" PRIu64, mx - mn);
        M16(varintFORGetCount(enc) == n, "FOR.GetCount", "n=%zu got %zu", n, varintFORGetCount(enc));
        M16(varintFORGetMinValue(enc) == mn, "FOR.GetMinValue", "want %" PRIu64, mn);
        M16((int)varintFORGetOffsetWidth(enc) == ref_bytes_needed(mx - mn), "FOR.GetOffsetWidth", "got %d", (int)varintFORGetOffsetWidth(enc));
    }
    if (!strncmp(c->name, "pfor", 4)) {
        const varintPFORMeta *m = &info.pforMeta;
        /* reference parse of the documented layout */
        uint64_t pmin, pcount, pexc;
        size_t off = (size_t)ref_tagged_read(enc, &pmin);
        unsigned w = enc[off++];
        off += (size_t)ref_tagged_read(enc + off, &pcount);
        size_t hdr = off;
        off += (size_t)pcount * w;
        off += (size_t)ref_tagged_read(enc + off, &pexc);
        size_t pairs = 0;
        while (pairs < pexc && off < ret) {
            uint64_t ei, ev;
            off += (size_t)ref_tagged_read(enc + off, &ei);
            off += (size_t)ref_tagged_read(enc + off, &ev);
            pairs++;
        }
        M16(off == ret && pairs == pexc, "PFOR.layout-consumes-exactly-written", "n=%zu parsed %zu bytes of %zu, %zu of %" PRIu64 " exceptions", n, off, ret, pairs, pexc);
        M16(m->count == n && pcount == n, "PFOR.meta.count", "n=%zu meta %u header %" PRIu64, n, m->count, pcount);
        M16(m->min == mn && pmin == mn, "PFOR.meta.min", "min %" PRIu64 " meta %" PRIu64, mn, m->min);
        M16((unsigned)m->width == w, "PFOR.meta.width", "meta %d bytes %u", (int)m->width, w);
        M16(m->exceptionCount == pexc, "PFOR.meta.exceptionCount", "meta %u, exception pairs in the bytes %" PRIu64, m->exceptionCount, pexc);
        varintPFORMeta rm;
        memset(&rm, 0, sizeof rm);
        g_ctx = "varintPFORReadMeta";
        size_t rl = varintPFORReadMeta(enc, &rm);
        M16(rl == hdr, "PFOR.ReadMeta.return", "returned %zu header is %zu", rl, hdr);
        M16(rm.count == n && rm.min == mn && (unsigned)rm.width == w && rm.exceptionCount == pexc, "PFOR.ReadMeta.fields", "count %u min %" PRIu64 " width %d exc %u (want %zu,%" PRIu64 ",%u,%" PRIu64 ")", rm.count, rm.min, (int)rm.width, rm.exceptionCount, n, mn, w, pexc);
        M16(varintPFORSize(m) >= ret, "PFOR.Size-below-written", "size %zu written %zu", varintPFORSize(m), ret);
        if (pexc == 0) STAT_INC("c16_pfor_no_exceptions");
        else if (pexc == 1) STAT_INC("c16_pfor_one_exception");
        else STAT_INC("c16_pfor_many_exceptions");
    }
    if (!strcmp(c->name, "group")) {
        g_ctx = "varintGroupGetSize";
        M16(varintGroupGetSize(enc) == ret, "Group.GetSize", "self-measured %zu written %zu", varintGroupGetSize(enc), ret);
        M16(varintGroupGetFieldCount(enc) == n, "Group.GetFieldCount", "n=%zu got %u", n, varintGroupGetFieldCount(enc));
        for (size_t i = 0; i < n; i++) {
            int gw = (int)varintGroupGetFieldWidth(enc, (uint8_t)i);
            if (gw != ref_group_width(a[i])) {
                viol(KEY(key, c, "Group.GetFieldWidth"), "field %zu value %" PRIu64 " width %d", i, a[i], gw);
                break;
            }
        }
    }
    if (!strncmp(c->name, "rle", 3)) {
        const varintRLEMeta *m = &info.rleMeta;
        size_t runs = ref_count_runs(a, n);
        bool hdr = !strcmp(c->name, "rle.header");
        M16(m->count == n, "RLE.meta.count", "n=%zu meta %zu", n, m->count);
        M16(m->runCount == runs, "RLE.meta.runCount", "runs %zu meta %zu", runs, m->runCount);
        M16(m->encodedSize == ret, "RLE.meta.encodedSize", "meta %zu written %zu", m->encodedSize, ret);
        uint64_t hv = 0;
        size_t hl = hdr ? (size_t)ref_tagged_read(enc, &hv) : 0;
        uint8_t *body = exact_copy(enc + hl, ret - hl);
        g_ctx = "varintRLEGetRunCount";
        size_t grc = varintRLEGetRunCount(body, ret - hl);
        M16(grc == runs, "RLE.GetRunCount", "runs %zu accessor %zu", runs, grc);
        free(body);
        if (!hdr && n >= 4 && n < (1u << 20)) {
            /* a header-less stream written in two appended calls (the cut may fall inside a run of equal values): the run
             * counter over the whole stream reports the runs of both chunks */
            size_t cut = 1 + (size_t)((a[0] ^ (uint64_t)n * 2654435761u) % (n - 1));
            if ((a[0] & 3) == 0) { /* prefer a cut inside a run, if there is one */
                for (size_t i = 1; i < n; i++) if (a[i] == a[i - 1]) { cut = i; break; }
            }
            uint8_t *two = malloc(scratch_size(n) + 64);
            varintRLEMeta m1, m2;
            memset(&m1, 0, sizeof m1);
            memset(&m2, 0, sizeof m2);
            g_ctx = "varintRLEEncode";
            size_t l1 = varintRLEEncode(two, a, cut, &m1);
            size_t l2 = varintRLEEncode(two + l1, a + cut, n - cut, &m2);
            uint8_t *both = exact_copy(two, l1 + l2);
            g_ctx = "varintRLEGetRunCount";
            size_t g2 = varintRLEGetRunCount(both, l1 + l2);
            M16(g2 == m1.runCount + m2.runCount, "RLE.GetRunCount(appended-chunks)", "n=%zu cut %zu: chunks hold %zu + %zu runs, accessor %zu", n, cut, m1.runCount, m2.runCount, g2);
            uint64_t *o2 = malloc(n * 8);
            g_ctx = "varintRLEDecode";
            size_t d2 = varintRLEDecode(both, o2, n);
            M16(d2 == n && !memcmp(o2, a, n * 8), "RLE.Decode(appended-chunks)", "n=%zu cut %zu decoded %zu", n, cut, d2);
            free(o2);
            free(both);
            free(two);
            STAT_INC("c16_rle_appended_chunk_streams");
        }
        if (hdr) {
            M16(varintRLEGetCount(enc) == n && hv == n, "RLE.GetCount", "n=%zu accessor %zu", n, varintRLEGetCount(enc));
        } else {
            varintRLEMeta am;
            memset(&am, 0xEE, sizeof am);
            g_ctx = "varintRLEAnalyze";
            varintRLEAnalyze(a, n, &am);
            M16(am.count == n && am.runCount == runs && am.encodedSize == ret, "RLE.Analyze", "count %zu runs %zu/%zu size %zu/%zu", am.count, am.runCount, runs, am.encodedSize, ret);
        }
    }
    if (elias) {
        const varintEliasMeta *m = &info.eliasMeta;
        size_t bits = 0;
        char tmp[160];
        bool gamma = !strcmp(c->name, "elias.gamma");
        for (size_t i = 0; i < n; i++) bits += (size_t)(gamma ? ref_gamma_bits(tmp, a[i]) : ref_delta_bits(tmp, a[i]));
        M16(m->count == n, "Elias.meta.count", "n=%zu meta %zu", n, m->count);
        M16(m->totalBits == bits, "Elias.meta.totalBits", "sum of code lengths %zu meta %zu", bits, m->totalBits);
        M16(m->encodedBytes == ret && ret == (bits + 7) / 8, "Elias.meta.encodedBytes", "meta %zu returned %zu ceil(bits/8) %zu", m->encodedBytes, ret, (bits + 7) / 8);
    }
    if (!strncmp(c->name, "bp128", 5)) {
        const varintBP128Meta *m = &info.bpMeta;
        bool delta = c->domain == DOM_SORTED;
        size_t inblocks = delta ? n - 1 : n;
        size_t blocks = (inblocks + 127) / 128;
        M16(m->count == n, "BP128.meta.count", "n=%zu meta %zu", n, m->count);
        M16(m->blockCount == blocks, "BP128.meta.blockCount", "n=%zu blocks %zu meta %zu", n, blocks, m->blockCount);
        M16(m->encodedBytes == ret, "BP128.meta.encodedBytes", "meta %zu written %zu", m->encodedBytes, ret);
        if (inblocks > 0) {
            size_t last = inblocks % 128 ? inblocks % 128 : 128;
            M16(m->lastBlockSize == last, "BP128.meta.lastBlockSize", "n=%zu values in final block %zu meta %zu", n, last, m->lastBlockSize);
        }
        M16(varintBP128BitsNeeded64(mx) == ref_bits(mx) && varintBP128BitsNeeded32((uint32_t)mx) == ref_bits((uint32_t)mx), "BP128.BitsNeeded", "max %" PRIu64, mx);
        if (!strcmp(c->name, "bp128.64")) {
            g_ctx = "varintBP128GetCount";
            M16(varintBP128GetCount(enc, ret) == n, "BP128.GetCount", "n=%zu accessor %zu", n, varintBP128GetCount(enc, ret));
        }
    }
    if (codec_is_adaptive(c)) {
        const varintAdaptiveMeta *m = &info.adMeta;
        M16(m->encodedSize == ret, "Adaptive.meta.encodedSize", "meta %zu written %zu", m->encodedSize, ret);
        M16(m->originalCount == n, "Adaptive.meta.originalCount", "n=%zu meta %zu", n, m->originalCount);
        M16((int)m->encodingType == enc[0] && (int)varintAdaptiveGetEncodingType(enc) == enc[0], "Adaptive.meta.encodingType", "meta %d byte %d", (int)m->encodingType, enc[0]);
        varintAdaptiveMeta rm;
        memset(&rm, 0xEE, sizeof rm);
        g_ctx = "varintAdaptiveReadMeta";
        varintAdaptiveReadMeta(enc, &rm);
        M16((int)rm.encodingType == enc[0], "Adaptive.ReadMeta.encodingType", "got %d", (int)rm.encodingType);
        if (enc[0] == VARINT_ADAPTIVE_FOR) {
            M16(varintFORSize(&rm.encodingMeta.forMeta) + 1 == ret, "Adaptive.ReadMeta.forMeta.Size", "n=%zu nested size %zu + 1, written %zu", n, varintFORSize(&rm.encodingMeta.forMeta), ret);
        }
        if (enc[0] == VARINT_ADAPTIVE_FOR || enc[0] == VARINT_ADAPTIVE_PFOR) {
            M16(rm.originalCount == n, "Adaptive.ReadMeta.originalCount", "n=%zu got %zu (type %d)", n, rm.originalCount, enc[0]);
            M16(rm.encodedSize == ret, enc[0] == VARINT_ADAPTIVE_FOR ? "Adaptive.ReadMeta.encodedSize.FOR" : "Adaptive.ReadMeta.encodedSize.PFOR", "n=%zu reported %zu written %zu", n, rm.encodedSize, ret);
        }
        /* decode-side metadata */
        bool inbitmapdomain = enc[0] != VARINT_ADAPTIVE_BITMAP || c->domain == DOM_STRICT16;
        if (inbitmapdomain) {
            uint64_t *o = malloc(n * 8);
            varintAdaptiveMeta dm;
            memset(&dm, 0xEE, sizeof dm);
            g_ctx = c->decname;
            size_t dn = varintAdaptiveDecode(enc, o, n, &dm);
            M16(dm.originalCount == dn && (int)dm.encodingType == enc[0], "Adaptive.decode.meta", "decoded %zu meta.originalCount %zu", dn, dm.originalCount);
            free(o);
        }
    }
    if (want_sample()) sample("{\"codec\":\"%s\",\"n\":%zu,\"written\":%zu,\"min\":%" PRIu64 ",\"max\":%" PRIu64 "}", c->name, n, ret, mn, mx);
out:
    g_sub[0] = 0;
    free(enc);
    free(in.base);
}

/* =================================================================== C06 */
static const char *const ADNAMES[] = {"DELTA", "FOR", "PFOR", "DICT", "BITMAP", "TAGGED", "GROUP"};
static uint64_t g_leaf[8][3];
static distinct_t g_cells;

static bool strictly_increasing16(const uint64_t *a, size_t n) {
    for (size_t i = 0; i < n; i++) {
        if (a[i] > 65535) return false;
        if (i && a[i] <= a[i - 1]) return false;
    }
    return true;
}
static void shuffle(rng_t *r, uint64_t *a, size_t n) {
    for (size_t i = n; i > 1; i--) {
        size_t j = rng_below(r, i);
        uint64_t t = a[i - 1];
        a[i - 1] = a[j];
        a[j] = t;
    }
}
static void reverse(uint64_t *a, size_t n) {
    for (size_t i = 0; i < n / 2; i++) {
        uint64_t t = a[i];
        a[i] = a[n - 1 - i];
        a[n - 1 - i] = t;
    }
}
/* decision-tree aimed generator; returns a malloc'd array */
static uint64_t *c06_make(rng_t *r, size_t *pn, const char **kindname) {
    size_t maxlen = g_param[0] ? g_param[0] : 4097;
    size_t n = gen_len(r, maxlen);
    int kind = (int)rng_below(r, 12);
    bool big = g_param[1] && rng_below(r, g_param[1]) == 0;
    if (big) {
        static const size_t bl[] = {8193, 8200, 9000, 9998, 9999, 10000, 10001, 10002, 12000, 20000, 30000};
        n = bl[rng_below(r, 11)];
    }
    if (big && n < 10000 && rng_chance(r, 1, 2)) kind = 1; /* the bitmap cut-off window just below 10000 */
    uint64_t *a = malloc((n + 1) * 8);
    switch (kind) {
    case 0: { /* unique ratio around 0.15 */
        *kindname = "few-unique-around-0.15";
        static const double ratios[] = {0.02, 0.10, 0.14, 0.15, 0.16, 0.20, 0.5};
        size_t u = (size_t)((double)n * ratios[rng_below(r, 7)]);
        if (u < 1) u = 1;
        uint64_t base = gen_value(r) >> rng_below(r, 40);
        bool wide = rng_chance(r, 1, 2);
        for (size_t i = 0; i < n; i++) {
            uint64_t k = i < u ? i : rng_below(r, u);
            a[i] = wide ? base + k * 0x9E3779B97F4A7ULL : base + k;
        }
        if (rng_chance(r, 1, 2)) shuffle(r, a, n);
        break;
    }
    case 1:
    case 2:
    case 3: { /* dense small values: BITMAP leaf and its neighbours */
        *kindname = kind == 1 ? "dense16-ascending" : kind == 2 ? "dense16-with-duplicate" : "dense16-descending";
        if (n > 9000 && !big) n = 9000;
        static const double dens[] = {0.02, 0.04, 0.05, 0.06, 0.2, 0.9, 1.0};
        double d = dens[rng_below(r, 7)];
        uint64_t range = (uint64_t)((double)n / d);
        if (range > 65535) range = 65535;
        if (range < n) range = n;
        uint64_t base = rng_chance(r, 1, 3) ? 65535 - range : rng_below(r, 65536 - range);
        if (rng_chance(r, 1, 8)) base += 1 + rng_below(r, 2); /* maxValue 65536/65537 */
        /* n distinct offsets in [0,range] by stepping */
        uint64_t v = 0, room = range - (n - 1) > 0 ? range - (n - 1) : 0;
        for (size_t i = 0; i < n; i++) {
            a[i] = base + v;
            uint64_t extra = room ? rng_below(r, room / (n - i) * 2 + 1) : 0;
            if (extra > room) extra = room;
            room -= extra;
            v += 1 + extra;
        }
        if (kind == 2 && n > 2) {
            size_t j = 1 + rng_below(r, n - 1);
            a[j] = a[j - 1]; /* one duplicate, still non-decreasing */
            if (rng_chance(r, 1, 3)) { size_t k = 1 + rng_below(r, n - 1); a[k] = a[k - 1]; }
        }
        if (kind == 3) reverse(a, n);
        if (kind == 1 && n > 4 && rng_chance(r, 1, n > 4096 ? 1 : 3)) {
            /* two ascending runs joined at one index (a power of two where possible): a single descent */
            size_t j = (size_t)1 << rng_below(r, 14);
            while (j >= n) j >>= 1;
            if (n > 4096 && rng_chance(r, 1, 2)) { /* the largest power of two below n (and its neighbours) */
                j = (size_t)1 << (63 - __builtin_clzll((uint64_t)n - 1));
                j += rng_below(r, 3);
                j -= 1;
            }
            if (rng_chance(r, 1, 4)) j = 1 + rng_below(r, n - 1);
            uint64_t *t = malloc(n * 8);
            memcpy(t, a + (n - j), j * 8);
            memcpy(t + j, a, (n - j) * 8);
            memcpy(a, t, n * 8);
            free(t);
            *kindname = "dense16-two-ascending-runs";
        }
        break;
    }
    case 4: { /* sorted with small deltas: DELTA leaf (both conditions) */
        *kindname = "sorted-small-deltas";
        uint64_t minv = rng_chance(r, 1, 2) ? (1ULL << (20 + rng_below(r, 40))) : rng_below(r, 100000);
        static const uint64_t avgs[] = {1, 10, 900, 999, 1000, 1001, 5000, 0};
        uint64_t avg = avgs[rng_below(r, 8)];
        if (avg == 0) avg = minv / 10 + rng_below(r, 3) - 1;
        uint64_t v = minv;
        for (size_t i = 0; i < n; i++) {
            a[i] = v;
            uint64_t step = avg ? rng_below(r, 2 * avg + 1) : 0;
            if (v + step < v) step = 0;
            v += step;
        }
        if (rng_chance(r, 1, 3)) reverse(a, n);
        break;
    }
    case 5: { /* clustered + outliers around 5% */
        *kindname = "clustered-outliers-around-5pct";
        static const unsigned rates[] = {0, 1, 3, 4, 5, 6, 10, 30}; /* percent */
        unsigned rate = rates[rng_below(r, 8)];
        uint64_t base = gen_value(r) >> (8 + rng_below(r, 30));
        unsigned cb = 4 + (unsigned)rng_below(r, 16);
        uint64_t far = base + (1ULL << (cb + 4 + rng_below(r, 30)));
        if (far < base) far = UINT64_MAX - 5;
        for (size_t i = 0; i < n; i++) {
            a[i] = (rng_below(r, 100) < rate) ? far - rng_below(r, 3) : base + gen_upto_bits(r, cb);
        }
        if (n > 1) a[rng_below(r, n)] = far; /* pin the range */
        break;
    }
    case 6: { /* range around count*100, many outliers so PFOR is not taken */
        *kindname = "uniform-range-around-100n";
        static const uint64_t mult[] = {50, 99, 100, 101, 200};
        uint64_t range = n * mult[rng_below(r, 5)];
        uint64_t base = gen_value(r) >> 3;
        for (size_t i = 0; i < n; i++) a[i] = base + rng_below(r, range + 1);
        if (n > 1) { a[0] = base; a[n - 1] = base + range; }
        break;
    }
    case 7:
        *kindname = "wide-random";
        for (size_t i = 0; i < n; i++) a[i] = gen_value(r);
        break;
    case 8: { /* overflowing range*95 */
        *kindname = "range-near-2^64";
        for (size_t i = 0; i < n; i++) a[i] = rng_chance(r, 1, 20) ? UINT64_MAX - rng_below(r, 1000) : rng_below(r, 1000);
        if (rng_chance(r, 1, 2)) qsort(a, n, 8, cmp_u64);
        break;
    }
    case 9:
        *kindname = "pfor-marker-range";
        gen_array_model(r, AM_RANGE_MARKER, a, n, 64);
        break;
    case 10:
        *kindname = "periodic";
        gen_array_model(r, AM_PERIODIC, a, n, 64);
        break;
    default: {
        int m = (int)rng_below(r, AM_NMODELS);
        *kindname = AM_NAMES[m];
        gen_array_model(r, m, a, n, 64);
        break;
    }
    }
    *pn = n;
    return a;
}

static void c06_roundtrip(const char *label, int forced, const uint64_t *a, size_t n, const char *kindname) {
    char key[200];
    const codec_t fake = {.name = label};
    const codec_t *c = &fake;
    uint8_t *dst = malloc(scratch_size(n));
    varintAdaptiveMeta m;
    memset(&m, 0xEE, sizeof m);
    g_ctx = forced < 0 ? "varintAdaptiveEncode" : "varintAdaptiveEncodeWith";
    snprintf(g_sub, sizeof g_sub, "%s n=%zu kind=%s", label, n, kindname);
    size_t ret = forced < 0 ? varintAdaptiveEncode(dst, a, n, &m) : varintAdaptiveEncodeWith(dst, a, n, (varintAdaptiveEncodingType)forced, &m);
    if (ret == 0 || ret > scratch_size(n)) {
        viol(KEY(key, c, "encoder-refused-valid-input"), "n=%zu kind=%s returned %zu input=%s", n, kindname, ret, arr_preview(a, n));
        free(dst);
        return;
    }
    int leaf = dst[0];
    if (leaf != (int)m.encodingType || leaf != (int)varintAdaptiveGetEncodingType(dst) || (forced >= 0 && leaf != forced)) {
        viol(KEY(key, c, "first-byte-disagrees-with-reported-choice"), "byte %d meta %d forced %d", leaf, (int)m.encodingType, forced);
    }
    if (leaf > 5) {
        viol(KEY(key, c, "unknown-encoding-selected"), "byte %d", leaf);
        free(dst);
        return;
    }
    uint8_t *enc = place_encoded(dst, ret, 0x77);
    uint64_t *out = malloc(n * 8);
    memset(out, 0xCD, n * 8);
    g_ctx = "varintAdaptiveDecode";
    snprintf(g_sub, sizeof g_sub, "%s n=%zu kind=%s leaf=%s bytes=%zu", label, n, kindname, ADNAMES[leaf], ret);
    size_t dn = varintAdaptiveDecode(enc, out, n, NULL);
    char cls[96];
    if (dn != n) {
        snprintf(cls, sizeof cls, "%s:decoded-count-mismatch", ADNAMES[leaf]);
        viol(KEY(key, c, cls), "n=%zu kind=%s decoded %zu (encoded bytes %zu) input=%s", n, kindname, dn, ret, arr_preview(a, n));
    } else if (memcmp(out, a, n * 8)) {
        size_t bad = 0;
        while (out[bad] == a[bad]) bad++;
        snprintf(cls, sizeof cls, "%s:value-mismatch", ADNAMES[leaf]);
        viol(KEY(key, c, cls), "n=%zu kind=%s index %zu want %" PRIu64 " got %" PRIu64 " input=%s", n, kindname, bad, a[bad], out[bad], arr_preview(a, n));
    }
    if (forced < 0) {
        int dir = 2;
        int s = varintAdaptiveCheckSorted(a, n);
        dir = s == 1 ? 0 : s == -1 ? 1 : 2;
        g_leaf[leaf][dir]++;
        varintAdaptiveDataStats st;
        varintAdaptiveAnalyze(a, n, &st);
        /* (leaf x guard outcome) cell */
        unsigned cell = (unsigned)leaf | (unsigned)(st.uniqueRatio < 0.15f) << 3 | (unsigned)st.fitsInBitmapRange << 4 | (unsigned)(st.uniqueRatio > 0.9f) << 5 | (unsigned)st.isSorted << 6 | (unsigned)st.isReverseSorted << 7 |
                        (unsigned)(n < 10000) << 8 | (unsigned)(st.range > 0 && (float)n / (float)st.range > 0.05f) << 9 | (unsigned)(st.avgDelta < 1000) << 10 | (unsigned)(st.minValue > 0 && st.avgDelta < st.minValue / 10) << 11 |
                        (unsigned)(st.outlierRatio < 0.05f) << 12 | (unsigned)(st.range < n * 100) << 13 | (unsigned)(n > 10000) << 14;
        if (distinct_add(&g_cells, cell)) STAT_INC("c06_distinct_leaf_guard_cells");
        if (n > 10000) STAT_INC("c06_sampled_uniqueness_path");
        if (ret > (1u << 20)) STAT_INC("c06_payload_over_1MiB");
        if (want_sample()) sample("{\"kind\":\"%s\",\"n\":%zu,\"selected\":\"%s\",\"bytes\":%zu,\"input\":\"%s\"}", kindname, n, ADNAMES[leaf], ret, arr_preview(a, n));
    } else {
        stat_add(label, 1);
        if (ret > (1u << 20)) STAT_INC("c06_payload_over_1MiB");
    }
    g_sub[0] = 0;
    free(out);
    placed_free(enc);
    free(dst);
}

static void c06_case(uint64_t idx, rng_t *r) {
    size_t n;
    g_enc_off = (idx & 1) ? (size_t)((idx >> 1) & 15) : 0;
    const char *kindname = "?";
    uint64_t *tmp;
    bool wide = false;
    if (g_param[2] && idx == 0 && g_shard < 2) {
        /* > 1 MiB payloads: few-unique 1.2M values (forced DICT; shard 1 also automatic) */
        n = 1200000;
        tmp = malloc(n * 8);
        uint64_t u[300];
        for (int i = 0; i < 300; i++) u[i] = rng_next(r);
        for (size_t i = 0; i < n; i++) tmp[i] = u[rng_below(r, 300)];
        kindname = "huge-few-unique";
    } else if (g_param[3] && idx >= 1 && idx <= g_param[3]) {
        /* worst-case-width arrays around the count thresholds of the length prefixes (tagged 67824, 2^16, 2^17): every
         * value distinct, nearly all of them 8 significant bytes wide; every forced encoding is run on them */
        static const size_t wl[] = {65535, 65536, 65537, 67823, 67824, 67825, 70000, 100000, 131071, 131073, 200001};
        n = wl[rng_below(r, sizeof wl / sizeof wl[0])];
        tmp = malloc(n * 8);
        int wk = (int)rng_below(r, 4);
        uint64_t start = UINT64_MAX - (uint64_t)n * 3 - rng_below(r, 1000);
        for (size_t i = 0; i < n; i++) {
            uint64_t x;
            if (wk == 0) x = rng_next(r) | 0xFF00000000000000ULL;          /* random, >= 2^56 (collisions are astronomically unlikely but harmless) */
            else if (wk == 1) x = start + i * 3;                            /* ascending up to just below UINT64_MAX */
            else if (wk == 2) x = (1ULL << 56) + i * 0x10001ULL;             /* ascending from 2^56 */
            else x = rng_next(r);                                            /* uniform 64-bit */
            tmp[i] = x;
        }
        if (wk != 3 && rng_chance(r, 1, 2)) tmp[rng_below(r, n)] = rng_below(r, 300); /* "all except at most one" */
        if (wk == 1 && rng_chance(r, 1, 2)) shuffle(r, tmp, n);
        kindname = wk == 0 ? "wide-distinct-random" : wk == 1 ? "wide-distinct-top" : wk == 2 ? "wide-distinct-from-2^56" : "uniform64-long";
        wide = true;
        STAT_INC("c06_wide_long_arrays");
    } else {
        tmp = c06_make(r, &n, &kindname);
    }
    uint64_t *a = malloc(n * 8); /* exact-size heap block */
    memcpy(a, tmp, n * 8);
    free(tmp);
    if (distinct_add(&g_distinct, arr_sig(&CODECS[0], a, n)) && nontrivial(a, n)) STAT_INC("distinct_nontrivial");
    bool huge = n >= 1000000;
    if (!huge && n >= 3 && (idx % 4) == 1) {
        /* history: the public analysis runs on a look-alike in the very same buffer (same count, first and last
         * element, same values in another order), the buffer is then edited in place and encoded */
        uint64_t *real = malloc(n * 8);
        memcpy(real, a, n * 8);
        if (idx % 8 == 1) qsort(a + 1, n - 2, 8, cmp_u64);
        else for (size_t i = 1; i + 1 < n; i++) a[i] = real[n - 1 - i];
        varintAdaptiveDataStats st;
        g_ctx = "varintAdaptiveAnalyze";
        varintAdaptiveAnalyze(a, n, &st);
        memcpy(a, real, n * 8);
        free(real);
        STAT_INC("c06_analyze_edit_encode_histories");
    }
    if (!huge || g_shard == 1) c06_roundtrip("adaptive.auto", -1, a, n, kindname);
    /* forced encodings inside their documented domain */
    int which = (int)rng_below(r, 6);
    for (int f = 0; f < 6; f++) {
        if (n > 3000 && f != which && !huge && !wide) continue; /* long arrays: one forced encoding per case */
        if (huge && f != VARINT_ADAPTIVE_DICT) continue;
        if (f == VARINT_ADAPTIVE_BITMAP && !strictly_increasing16(a, n)) continue;
        char label[48];
        snprintf(label, sizeof label, "adaptive.forced.%s", ADNAMES[f]);
        c06_roundtrip(label, f, a, n, kindname);
    }
    STAT_INC("c06_arrays");
    free(a);
    if (idx + 1 == g_count || g_only >= 0) {
        for (int l = 0; l < 6; l++) {
            static const char *const dirs[3] = {"ascending", "descending", "unsorted"};
            for (int d = 0; d < 3; d++) {
                if (g_leaf[l][d]) {
                    char nm[64];
                    snprintf(nm, sizeof nm, "leaf.%s.%s", ADNAMES[l], dirs[d]);
                    stat_add(nm, g_leaf[l][d]);
                    g_leaf[l][d] = 0;
                }
            }
        }
    }
}
