/* drv_scalar.c — scalar varint families.
 *   --mode c01   round trip, agreeing bounded lengths, confinement, signed helpers
 *   --mode c04   byte-exact vs independent reference, canonical, length-monotone, README tables
 *   --mode c05   tagged memcmp order (adjacent pairs, byte perturbations, sort tests, tuples)
 *   --mode c12   in-place add
 * --p0 E : global case indices below E are the enumerated values 0..E-1, the rest are mixture samples
 * --p1 K : (c05) keys per sort test
 */
#include "common.h"
#include "gen.h"
#include "ref_scalar.h"

#include "varint.h"
#include "varintChained.h"
#include "varintChainedSimple.h"
#include "varintExternal.h"
#include "varintExternalBigEndian.h"
#include "varintSplit.h"
#include "varintSplitFull.h"
#include "varintSplitFull16.h"
#include "varintSplitFullNoZero.h"
#include "varintTagged.h"
#include "varintDelta.h"
#include "varintElias.h"

/* declared under other names in varintTagged.h */
varintWidth varintTaggedPutVarint32(uint8_t *p, uint32_t v);
varintWidth varintTaggedGetVarint32(const uint8_t *z, uint32_t *pResult);

/* macro arguments are passed as expressions whose top-level operator binds looser than + and -:
 * a macro that forgets to parenthesise a parameter then computes something else */
static volatile uint64_t g_zero = 0;
static volatile size_t g_zoff = 0;
static const char *PROP = "C01";
static int MODE = 1;
static distinct_t g_distinct;
static digest_t g_dig;

/* ------------------------------------------------------------- arena */
#define ARENA_N 256
#define WIN_OFF 64
/* cache-line aligned, so that g_align (0..127) places the window at every offset of a 64-byte line, including the
 * positions where a 2..9-byte encoding straddles two lines */
static _Alignas(64) uint8_t ARENA[ARENA_N];
static uint8_t PAT[ARENA_N];
static unsigned g_align;
static inline void arena_newpat(rng_t *r) {
    rng_fill(r, PAT, ARENA_N);
    memcpy(ARENA, PAT, ARENA_N);
}
static inline uint8_t *win(void) {
    return ARENA + WIN_OFF + g_align;
}
static inline void arena_reset(void) {
    memcpy(ARENA, PAT, ARENA_N);
}
/* every byte outside [p, p+len) still holds the pattern? */
static inline bool arena_outside_ok(const uint8_t *p, size_t len) {
    size_t off = (size_t)(p - ARENA);
    return !memcmp(ARENA, PAT, off) && !memcmp(ARENA + off + len, PAT + off + len, ARENA_N - off - len);
}

static void vkey(char *out, size_t n, const char *fam, const char *entry, const char *cls) {
    snprintf(out, n, "%s:%s.%s:%s", PROP, fam, entry, cls);
}
#define FAIL(fam, entry, cls, ...)                                                                                    \
    do {                                                                                                               \
        char _k[160];                                                                                                  \
        vkey(_k, sizeof _k, fam, entry, cls);                                                                          \
        viol(_k, __VA_ARGS__);                                                                                         \
    } while (0)

/* --------------------------------------------------- family entry points */
typedef int (*put_fn)(uint8_t *, uint64_t);
typedef int (*get_fn)(const uint8_t *, uint64_t *);
typedef int (*len_fn)(uint64_t);
typedef int (*getlen_fn)(const uint8_t *);
typedef struct {
    const char *name;
    put_fn f;
    bool only32;
} put_ent;
typedef struct {
    const char *name;
    get_fn f;
    bool only32;
} get_ent;
typedef struct {
    const char *name;
    len_fn f;
} len_ent;
typedef struct {
    const char *name;
    getlen_fn f;
} getlen_ent;
typedef struct {
    const char *name;
    int minlen, maxlen;
    uint64_t minval;
    put_fn ref;
    put_ent puts[6];
    get_ent gets[8];
    len_ent lens[3];
    getlen_ent getlens[3];
    /* reversed forms (split families) */
    put_fn rput_forward;  /* writes dst[0..len) type byte last */
    put_fn rput_reversed; /* dst points at the LAST byte */
    get_fn rget;          /* src points at the LAST byte */
    getlen_fn rgetlen[2];
} fam_t;

/* tagged */
static int tg_put(uint8_t *d, uint64_t v) { g_ctx = "varintTaggedPut64"; return varintTaggedPut64(d, v); }
static int tg_putfw(uint8_t *d, uint64_t v) { g_ctx = "varintTaggedPut64FixedWidth"; return varintTaggedPut64FixedWidth(d, v, varintTaggedLen(v)); }
static int tg_putfwq(uint8_t *d, uint64_t v) {
    g_ctx = "varintTaggedPut64FixedWidthQuick_";
    varintWidth w = varintTaggedLen(v);
    varintTaggedPut64FixedWidthQuick_(d + g_zoff, v | g_zero, w);
    return (int)w;
}
static int tg_put32(uint8_t *d, uint64_t v) { g_ctx = "varintTaggedPutVarint32"; return varintTaggedPutVarint32(d, (uint32_t)v); }
static int tg_get(const uint8_t *s, uint64_t *v) { g_ctx = "varintTaggedGet"; return varintTaggedGet(s, 9, v); }
static int tg_get64(const uint8_t *s, uint64_t *v) { g_ctx = "varintTaggedGet64"; return varintTaggedGet64(s, v); }
static int tg_getrv(const uint8_t *s, uint64_t *v) { g_ctx = "varintTaggedGet64ReturnValue"; *v = varintTaggedGet64ReturnValue(s); return varintTaggedGetLen(s); }
static int tg_getq(const uint8_t *s, uint64_t *v) { g_ctx = "varintTaggedGet64Quick_"; *v = varintTaggedGet64Quick_(s + g_zoff); return varintTaggedGetLenQuick_(s + g_zoff); }
static int tg_get32(const uint8_t *s, uint64_t *v) { g_ctx = "varintTaggedGetVarint32"; uint32_t x = 0; int n = varintTaggedGetVarint32(s, &x); *v = x; return n; }
static int tg_getexact(const uint8_t *s, uint64_t *v) { g_ctx = "varintTaggedGet(n=len)"; return varintTaggedGet(s, varintTaggedGetLen(s), v); }
static int tg_len(uint64_t v) { return varintTaggedLen(v); }
static int tg_lenq(uint64_t v) { return varintTaggedLenQuick(v | g_zero); }
static int tg_getlen(const uint8_t *s) { return varintTaggedGetLen(s); }
static int tg_getlenq(const uint8_t *s) { return varintTaggedGetLenQuick_(s + g_zoff); }

/* chained */
static int ch_put(uint8_t *d, uint64_t v) { g_ctx = "varintChainedPutVarint"; return varintChainedPutVarint(d, v); }
static int ch_put32m(uint8_t *d, uint64_t v) { g_ctx = "varintChained_putVarint32"; uint32_t b = (uint32_t)v; return varintChained_putVarint32(d + g_zoff, b | (uint32_t)g_zero); }
static int ch_get(const uint8_t *s, uint64_t *v) { g_ctx = "varintChainedGetVarint"; return varintChainedGetVarint(s, v); }
/* the function form documents that the single-byte case must already have been
 * handled by the macro ("this function assumes the single-byte case has already
 * been handled"), so it is only called on multi-byte encodings */
static int ch_get32(const uint8_t *s, uint64_t *v) {
    g_ctx = "varintChainedGetVarint32";
    if (!(s[0] & 0x80)) { *v = s[0]; return 1; }
    uint32_t x = 0; int n = varintChainedGetVarint32(s, &x); *v = x; return n;
}
static int ch_get32m(const uint8_t *s, uint64_t *v) { g_ctx = "varintChained_getVarint32"; uint32_t x = 0; int n = varintChained_getVarint32(s + g_zoff, x); *v = x; return n; }
static int ch_len(uint64_t v) { return varintChainedVarintLen(v); }
static int ch_getlen(const uint8_t *s) { /* length is found by walking: first byte without the flag, or the 9th */
    int n = 1;
    while (n < 9 && (s[n - 1] & 0x80)) n++;
    return n;
}

/* chained simple */
static int cs_put(uint8_t *d, uint64_t v) { g_ctx = "varintChainedSimpleEncode64"; return varintChainedSimpleEncode64(d, v); }
static int cs_put32(uint8_t *d, uint64_t v) { g_ctx = "varintChainedSimpleEncode32"; return varintChainedSimpleEncode32(d, (uint32_t)v); }
static int cs_get(const uint8_t *s, uint64_t *v) { g_ctx = "varintChainedSimpleDecode64"; return varintChainedSimpleDecode64(s, v); }
static int cs_get32(const uint8_t *s, uint64_t *v) { g_ctx = "varintChainedSimpleDecode32"; uint32_t x = 0; int n = varintChainedSimpleDecode32(s, &x); *v = x; return n; }
static int cs_get32f(const uint8_t *s, uint64_t *v) { g_ctx = "varintChainedSimpleDecode32Fallback"; uint32_t x = 0; int n = varintChainedSimpleDecode32Fallback(s, &x); *v = x; return n; }
static int cs_len(uint64_t v) { return varintChainedSimpleLength(v); }

#define SPLITFAM(N, PFX, NAME)                                                                                         \
    static int N##_put(uint8_t *d, uint64_t v) { g_ctx = NAME "Put_"; varintWidth len = 0; PFX##Put_(d, len, v | g_zero); return (int)len; } \
    static int N##_get(const uint8_t *s, uint64_t *v) { g_ctx = NAME "Get_"; varintWidth len = 0; uint64_t x = 0; PFX##Get_(s, len, x); *v = x; return (int)len; } \
    /* the destination operand also occurs in the pointer operand (following an offset chain: pos = Get(base + pos)) */ \
    static int N##_getchain(const uint8_t *s, uint64_t *v) { g_ctx = NAME "Get_"; varintWidth len = 0; uint64_t pos = g_zero; PFX##Get_(s + pos, len, pos); *v = pos; return (int)len; } \
    static int N##_len(uint64_t v) { varintWidth len = 0; PFX##Length_(len, v | g_zero); return (int)len; }                   \
    static int N##_getlen(const uint8_t *s) { varintWidth len = 0; PFX##GetLen_(s, len); return (int)len; }          \
    static int N##_getlenq(const uint8_t *s) { return (int)PFX##GetLenQuick_(s); }
#define SPLITREV(N, PFX, NAME)                                                                                         \
    static int N##_rputf(uint8_t *d, uint64_t v) { g_ctx = NAME "ReversedPutForward_"; varintWidth len = 0; PFX##ReversedPutForward_(d, len, v | g_zero); return (int)len; } \
    static int N##_rputr(uint8_t *d, uint64_t v) { g_ctx = NAME "ReversedPutReversed_"; varintWidth len = 0; PFX##ReversedPutReversed_(d, len, v | g_zero); return (int)len; } \
    static int N##_rget(const uint8_t *s, uint64_t *v) { g_ctx = NAME "ReversedGet_"; varintWidth len = 0; uint64_t x = 0; PFX##ReversedGet_(s, len, x); *v = x; return (int)len; }

SPLITFAM(sp, varintSplit, "varintSplit")
SPLITREV(sp, varintSplit, "varintSplit")
SPLITFAM(sf, varintSplitFull, "varintSplitFull")
SPLITREV(sf, varintSplitFull, "varintSplitFull")
SPLITFAM(nz, varintSplitFullNoZero, "varintSplitFullNoZero")
SPLITREV(nz, varintSplitFullNoZero, "varintSplitFullNoZero")
SPLITFAM(s16, varintSplitFull16, "varintSplitFull16")

static fam_t FAMS[] = {
    {.name = "tagged", .minlen = 1, .maxlen = 9, .ref = ref_tagged,
     .puts = {{"Put64", tg_put}, {"Put64FixedWidth", tg_putfw}, {"Put64FixedWidthQuick_", tg_putfwq}, {"PutVarint32", tg_put32, true}},
     .gets = {{"Get", tg_get}, {"Get64", tg_get64}, {"Get64ReturnValue", tg_getrv}, {"Get64Quick_", tg_getq},
              {"GetVarint32", tg_get32, true}, {"Get(n=len)", tg_getexact}},
     .lens = {{"Len", tg_len}, {"LenQuick", tg_lenq}},
     .getlens = {{"GetLen", tg_getlen}, {"GetLenQuick_", tg_getlenq}}},
    {.name = "chained", .minlen = 1, .maxlen = 9, .ref = ref_chained,
     .puts = {{"PutVarint", ch_put}, {"_putVarint32", ch_put32m, true}},
     .gets = {{"GetVarint", ch_get}, {"GetVarint32", ch_get32, true}, {"_getVarint32", ch_get32m, true}},
     .lens = {{"VarintLen", ch_len}},
     .getlens = {{"walk", ch_getlen}}},
    {.name = "chainedSimple", .minlen = 1, .maxlen = 9, .ref = ref_chained_simple,
     .puts = {{"Encode64", cs_put}, {"Encode32", cs_put32, true}},
     .gets = {{"Decode64", cs_get}, {"Decode32", cs_get32, true}, {"Decode32Fallback", cs_get32f, true}},
     .lens = {{"Length", cs_len}},
     .getlens = {{"walk", ch_getlen}}},
    {.name = "split", .minlen = 1, .maxlen = 9, .ref = ref_split,
     .puts = {{"Put_", sp_put}}, .gets = {{"Get_", sp_get}, {"Get_(offset-chain)", sp_getchain}}, .lens = {{"Length_", sp_len}},
     .getlens = {{"GetLen_", sp_getlen}, {"GetLenQuick_", sp_getlenq}},
     .rput_forward = sp_rputf, .rput_reversed = sp_rputr, .rget = sp_rget, .rgetlen = {sp_getlen, sp_getlenq}},
    {.name = "splitFull", .minlen = 1, .maxlen = 9, .ref = ref_splitfull,
     .puts = {{"Put_", sf_put}}, .gets = {{"Get_", sf_get}, {"Get_(offset-chain)", sf_getchain}}, .lens = {{"Length_", sf_len}},
     .getlens = {{"GetLen_", sf_getlen}, {"GetLenQuick_", sf_getlenq}},
     .rput_forward = sf_rputf, .rput_reversed = sf_rputr, .rget = sf_rget, .rgetlen = {sf_getlen, sf_getlenq}},
    {.name = "splitFullNoZero", .minlen = 1, .maxlen = 9, .minval = 1, .ref = ref_splitnz,
     .puts = {{"Put_", nz_put}}, .gets = {{"Get_", nz_get}, {"Get_(offset-chain)", nz_getchain}}, .lens = {{"Length_", nz_len}},
     .getlens = {{"GetLen_", nz_getlen}, {"GetLenQuick_", nz_getlenq}},
     .rput_forward = nz_rputf, .rput_reversed = nz_rputr, .rget = nz_rget, .rgetlen = {nz_getlen, nz_getlenq}},
    {.name = "splitFull16", .minlen = 2, .maxlen = 9, .ref = ref_split16,
     .puts = {{"Put_", s16_put}}, .gets = {{"Get_", s16_get}, {"Get_(offset-chain)", s16_getchain}}, .lens = {{"Length_", s16_len}},
     .getlens = {{"GetLen_", s16_getlen}, {"GetLenQuick_", s16_getlenq}}},
};
#define NFAMS (sizeof(FAMS) / sizeof(FAMS[0]))

static uint64_t g_lenclass[NFAMS + 2][17]; /* +2: external LE / BE */
static uint64_t g_alignseen[16];
static uint64_t g_fixedwidth_seen[3][17];

/* ================================================================= C01 */
static void c01_family(const fam_t *F, int fi, uint64_t v) {
    if (v < F->minval) {
        return;
    }
    int L = F->lens[0].f(v);
    if (L < F->minlen || L > F->maxlen) {
        FAIL(F->name, F->lens[0].name, "length-out-of-range", "v=%" PRIu64 " len=%d", v, L);
        return;
    }
    g_lenclass[fi][L]++;
    for (int i = 1; i < 3 && F->lens[i].f; i++) {
        int l2 = F->lens[i].f(v);
        if (l2 != L) {
            FAIL(F->name, F->lens[i].name, "length-disagrees", "v=%" PRIu64 " %s=%d %s=%d", v, F->lens[0].name, L, F->lens[i].name, l2);
        }
    }
    uint8_t first[16];
    bool havefirst = false;
    for (int pi = 0; pi < 6 && F->puts[pi].f; pi++) {
        const put_ent *P = &F->puts[pi];
        if (P->only32 && v > UINT32_MAX) {
            continue;
        }
        arena_reset();
        uint8_t *w = win();
        int n = P->f(w, v);
        if (n != L) {
            FAIL(F->name, P->name, "length-disagrees", "v=%" PRIu64 " encoder returned %d, Len says %d", v, n, L);
            continue;
        }
        if (!arena_outside_ok(w, (size_t)n)) {
            FAIL(F->name, P->name, "write-outside-length", "v=%" PRIu64 " len=%d align=%u arena=%s", v, n, g_align, hexs(w - 4, 24));
            continue;
        }
        if (!havefirst) {
            memcpy(first, w, (size_t)n);
            havefirst = true;
            digest_u64(&g_dig, v);
            digest_bytes(&g_dig, w, (size_t)n);
        } else if (memcmp(first, w, (size_t)n)) {
            FAIL(F->name, P->name, "bytes-differ-from-primary-encoder", "v=%" PRIu64 " %s vs %s", v, hexs(first, (size_t)n), hexs(w, (size_t)n));
        }
        STAT_INC("c01_encoder_calls");
#if VERIF_ASAN
        /* exact-size heap block: a write past len or a read past len aborts */
        uint8_t *h = malloc((size_t)n);
        snprintf(g_sub, sizeof g_sub, "exact-heap put %s.%s v=%" PRIu64, F->name, P->name, v);
        P->f(h, v);
        const uint8_t *src = h;
#else
        const uint8_t *src = w;
#endif
        for (int gi = 0; gi < 8 && F->gets[gi].f; gi++) {
            const get_ent *G = &F->gets[gi];
            if (G->only32 && v > UINT32_MAX) {
                continue;
            }
            uint64_t out = ~v;
#if VERIF_ASAN
            snprintf(g_sub, sizeof g_sub, "exact-heap get %s.%s v=%" PRIu64, F->name, G->name, v);
#endif
            int gn = G->f(src, &out);
            if (out != v) {
                FAIL(F->name, G->name, "value-mismatch", "v=%" PRIu64 " decoded=%" PRIu64 " bytes=%s (written by %s)", v, out, hexs(src, (size_t)n), P->name);
            }
            if (gn != n) {
                FAIL(F->name, G->name, "length-disagrees", "v=%" PRIu64 " decoder returned %d, encoder %d", v, gn, n);
            }
            STAT_INC("c01_decoder_calls");
        }
        for (int li = 0; li < 3 && F->getlens[li].f; li++) {
            int gl = F->getlens[li].f(src);
            if (gl != n) {
                FAIL(F->name, F->getlens[li].name, "length-disagrees", "v=%" PRIu64 " stored-byte length %d, encoder %d", v, gl, n);
            }
        }
#if VERIF_ASAN
        g_sub[0] = 0;
        free(h);
#endif
    }
    /* reversed forms */
    if (F->rput_forward) {
        arena_reset();
        uint8_t *w = win();
        int n = F->rput_forward(w, v);
        if (n != L) {
            FAIL(F->name, "ReversedPutForward_", "length-disagrees", "v=%" PRIu64 " got %d want %d", v, n, L);
            return;
        }
        if (!arena_outside_ok(w, (size_t)n)) {
            FAIL(F->name, "ReversedPutForward_", "write-outside-length", "v=%" PRIu64 " len=%d", v, n);
        }
        uint8_t fw[16];
        memcpy(fw, w, (size_t)n);
        uint64_t out = ~v;
        int gn = F->rget(w + n - 1, &out);
        if (out != v || gn != n) {
            FAIL(F->name, "ReversedGet_", out != v ? "value-mismatch" : "length-disagrees", "v=%" PRIu64 " decoded=%" PRIu64 " len %d/%d bytes=%s", v, out, gn, n, hexs(fw, (size_t)n));
        }
        for (int li = 0; li < 2; li++) {
            int gl = F->rgetlen[li](w + n - 1);
            if (gl != n) {
                FAIL(F->name, "Reversed.GetLen(last byte)", "length-disagrees", "v=%" PRIu64 " last-byte length %d, encoder %d", v, gl, n);
            }
        }
        arena_reset();
        uint8_t *end = w + 12; /* points at the last byte */
        int rn = F->rput_reversed(end, v);
        if (rn != L) {
            FAIL(F->name, "ReversedPutReversed_", "length-disagrees", "v=%" PRIu64 " got %d want %d", v, rn, L);
            return;
        }
        if (!arena_outside_ok(end - rn + 1, (size_t)rn)) {
            FAIL(F->name, "ReversedPutReversed_", "write-outside-length", "v=%" PRIu64 " len=%d", v, rn);
        }
        if (memcmp(end - rn + 1, fw, (size_t)rn)) {
            FAIL(F->name, "ReversedPutReversed_", "bytes-differ-from-primary-encoder", "v=%" PRIu64 " fwd=%s rev=%s", v, hexs(fw, (size_t)rn), hexs(end - rn + 1, (size_t)rn));
        }
        out = ~v;
        gn = F->rget(end, &out);
        if (out != v || gn != rn) {
            FAIL(F->name, "ReversedGet_", out != v ? "value-mismatch" : "length-disagrees", "(after PutReversed) v=%" PRIu64 " decoded=%" PRIu64, v, out);
        }
#if VERIF_ASAN
        uint8_t *h = malloc((size_t)n);
        snprintf(g_sub, sizeof g_sub, "exact-heap reversed %s v=%" PRIu64, F->name, v);
        F->rput_forward(h, v);
        F->rget(h + n - 1, &out);
        F->rput_reversed(h + n - 1, v);
        g_sub[0] = 0;
        free(h);
#endif
        STAT_INC("c01_reversed_cases");
    }
}

/* tagged fixed widths: the minimal width, and every width >= 4 that is >= minimal */
static void c01_tagged_fixed(uint64_t v) {
    int minw = ref_tagged_len(v);
    for (int W = minw; W <= 9; W++) {
        if (W != minw && W < 4) {
            continue;
        }
        for (int variant = 0; variant < 2; variant++) {
            const char *nm = variant ? "Put64FixedWidthQuick_" : "Put64FixedWidth";
            arena_reset();
            uint8_t *w = win();
            int n;
            if (variant) {
                g_ctx = "varintTaggedPut64FixedWidthQuick_";
                varintTaggedPut64FixedWidthQuick_(w, v | g_zero, (varintWidth)W);
                n = W;
            } else {
                g_ctx = "varintTaggedPut64FixedWidth";
                n = varintTaggedPut64FixedWidth(w, v, (varintWidth)W);
            }
            if (n != W) {
                FAIL("tagged", nm, "length-disagrees", "v=%" PRIu64 " width=%d returned %d", v, W, n);
                continue;
            }
            if (!arena_outside_ok(w, (size_t)W)) {
                FAIL("tagged", nm, "write-outside-length", "v=%" PRIu64 " width=%d", v, W);
            }
            uint64_t out = ~v;
            g_ctx = "varintTaggedGet64";
            int gn = varintTaggedGet64(w, &out);
            if (out != v) {
                FAIL("tagged", nm, "value-mismatch", "v=%" PRIu64 " width=%d decoded=%" PRIu64 " bytes=%s", v, W, out, hexs(w, (size_t)W));
            }
            if (gn != W || varintTaggedGetLen(w) != (varintWidth)W || varintTaggedGetLenQuick_(w) != W) {
                FAIL("tagged", nm, "length-disagrees", "v=%" PRIu64 " width=%d Get64 returned %d GetLen %d", v, W, gn, (int)varintTaggedGetLen(w));
            }
            uint64_t q = varintTaggedGet64Quick_(w);
            if (q != v) {
                FAIL("tagged", "Get64Quick_", "value-mismatch", "fixed width %d v=%" PRIu64 " got %" PRIu64, W, v, q);
            }
            g_fixedwidth_seen[0][W]++;
#if VERIF_ASAN
            uint8_t *h = malloc((size_t)W);
            snprintf(g_sub, sizeof g_sub, "exact-heap tagged fixed W=%d v=%" PRIu64, W, v);
            varintTaggedPut64FixedWidth(h, v, (varintWidth)W);
            varintTaggedGet64(h, &out);
            g_sub[0] = 0;
            free(h);
#endif
        }
    }
}

/* The bounded tagged reader with every kind of available-length argument: the encoding sits at the start of a
 * region that really is lenMax bytes long (a lazily mapped 2 GiB region), so any lenMax >= the encoded length is a
 * legal call and must decode the value; a smaller one must report 0. */
#include <sys/mman.h>
static void c01_tagged_lenmax(uint64_t v, rng_t *r) {
    static uint8_t *region = NULL;
    if (!region) {
        region = mmap(NULL, (size_t)INT32_MAX + 4096, PROT_READ | PROT_WRITE, MAP_PRIVATE | MAP_ANONYMOUS | MAP_NORESERVE, -1, 0);
        if (region == MAP_FAILED) {
            region = NULL;
            return;
        }
    }
    uint8_t *z = region + (rng_next(r) & 7);
    int n = varintTaggedPut64(z, v);
    static const int32_t fixed[] = {9, 10, 16, 127, 128, 255, 256, 257, 258, 259, 260, 261, 262, 263, 264, 265, 511, 512, 513, 1023, 1024, 4096, 32767, 32768,
                                    65535, 65536, 65537, 65544, 1 << 20, 1 << 24, (1 << 24) + 3, 1 << 30, INT32_MAX - 1, INT32_MAX};
    int32_t lens[48];
    int nl = 0;
    for (size_t i = 0; i < sizeof fixed / sizeof fixed[0]; i++) lens[nl++] = fixed[i];
    lens[nl++] = n;
    lens[nl++] = n + 1;
    for (int k = 0; k < 6; k++) {
        uint64_t x = rng_next(r);
        int sh = (int)(rng_next(r) % 31);
        lens[nl++] = (int32_t)((x >> 33) >> sh) | (int32_t)(k & 1 ? 0x100 << (sh % 20) : 0);
    }
    for (int i = 0; i < nl; i++) {
        int32_t L = lens[i];
        uint64_t out = ~v;
        g_ctx = "varintTaggedGet";
        int gn = varintTaggedGet(z, L, &out);
        if (L >= n) {
            if (gn != n) {
                FAIL("tagged", "Get", "length-disagrees", "v=%" PRIu64 " lenMax=%d: decoder returned %d, encoder %d", v, (int)L, gn, n);
            } else if (out != v) {
                FAIL("tagged", "Get", "value-mismatch", "v=%" PRIu64 " lenMax=%d decoded=%" PRIu64, v, (int)L, out);
            }
        } else if (gn != 0) {
            FAIL("tagged", "Get", "truncated-not-reported", "v=%" PRIu64 " lenMax=%d (encoding is %d bytes) returned %d", v, (int)L, n, gn);
        }
        STAT_INC("c01_tagged_lenmax_calls");
    }
    for (int32_t L = -1; L < n; L++) {
        uint64_t out = ~v;
        if (varintTaggedGet(z, L, &out) != 0) {
            FAIL("tagged", "Get", "truncated-not-reported", "v=%" PRIu64 " lenMax=%d (encoding is %d bytes) did not return 0", v, (int)L, n);
        }
    }
    memset(z, 0, 9);
}

/* external little / big endian */
static void c01_external(uint64_t v, rng_t *r) {
    int minw = ref_bytes_needed(v);
    for (int be = 0; be < 2; be++) {
        const char *fam = be ? "externalBE" : "externalLE";
        arena_reset();
        uint8_t *w = win();
        g_ctx = be ? "varintExternalBigEndianPut" : "varintExternalPut";
        int n = be ? (int)varintExternalBigEndianPut(w, v) : (int)varintExternalPut(w, v);
        varintWidth ue;
        if (be) {
            varintExternalBigEndianUnsignedEncoding(v | g_zero, ue);
        } else {
            varintExternalUnsignedEncoding(v | g_zero, ue);
        }
        if (n != minw || (int)ue != minw || n < 1 || n > 8) {
            FAIL(fam, "Put", "length-disagrees", "v=%" PRIu64 " Put=%d UnsignedEncoding=%d minimal=%d", v, n, (int)ue, minw);
            continue;
        }
        if (!be && v <= (uint64_t)INT64_MAX) {
            int se = varintExternalSignedEncoding((int64_t)v);
            int le = varintExternalLen(v);
            if (se != minw || le != minw) {
                FAIL(fam, "SignedEncoding", "length-disagrees", "v=%" PRIu64 " %d/%d want %d", v, se, le, minw);
            }
        }
        g_lenclass[NFAMS + be][n]++;
        if (!arena_outside_ok(w, (size_t)n)) {
            FAIL(fam, "Put", "write-outside-length", "v=%" PRIu64 " len=%d", v, n);
        }
        digest_bytes(&g_dig, w, (size_t)n);
        g_ctx = be ? "varintExternalBigEndianGet" : "varintExternalGet";
        uint64_t out = be ? varintExternalBigEndianGet(w, (varintWidth)n) : varintExternalGet(w, (varintWidth)n);
        if (out != v) {
            FAIL(fam, "Get", "value-mismatch", "v=%" PRIu64 " got %" PRIu64 " width %d", v, out, n);
        }
        for (int W = minw; W <= 8; W++) {
            uint8_t expect[8];
            if (be) {
                ref_be(expect, v, W);
            } else {
                ref_le(expect, v, W);
            }
            int nvariants = be ? 2 : 3;
            for (int variant = 0; variant < nvariants; variant++) {
                static const char *const nmLE[] = {"PutFixedWidth", "PutFixedWidthQuick_", "PutFixedWidthQuickMedium_"};
                const char *nm = nmLE[variant];
                arena_reset();
                g_ctx = nm;
                if (be) {
                    if (variant == 0) {
                        varintExternalBigEndianPutFixedWidth(w, v, (varintWidth)W);
                    } else {
                        varintExternalBigEndianPutFixedWidthQuick_(w + g_zoff, v | g_zero, (varintWidth)W);
                    }
                } else if (variant == 0) {
                    varintExternalPutFixedWidth(w, v, (varintWidth)W);
                } else if (variant == 1) {
                    varintExternalPutFixedWidthQuick_(w + g_zoff, v | g_zero, (varintWidth)W);
                } else {
                    if (W == 1) { /* QuickMedium_ has no 1-byte fast path but delegates */
                    }
                    varintExternalPutFixedWidthQuickMedium_(w + g_zoff, v | g_zero, (varintWidth)W);
                }
                if (!arena_outside_ok(w, (size_t)W)) {
                    FAIL(fam, nm, "write-outside-length", "v=%" PRIu64 " width=%d arena=%s", v, W, hexs(w - 2, 14));
                }
                if (memcmp(w, expect, (size_t)W)) {
                    FAIL(fam, nm, "value-mismatch", "v=%" PRIu64 " width=%d bytes=%s want=%s", v, W, hexs(w, (size_t)W), hexs(expect, (size_t)W));
                    continue;
                }
                uint64_t o1, o2 = v, o3 = v, o4 = v;
                if (be) {
                    o1 = varintExternalBigEndianGet(w, (varintWidth)W);
                    varintExternalBigEndianGetQuick_(w + g_zoff, (varintWidth)W, o2);
                } else {
                    o1 = varintExternalGet(w, (varintWidth)W);
                    varintExternalGetQuick_(w + g_zoff, (varintWidth)W, o2);
                    varintExternalGetQuickMedium_(w + g_zoff, (varintWidth)W, o3);
                    o4 = varintExternalGetQuickMediumReturnValue_(w, (varintWidth)W);
                }
                if (o1 != v || o2 != v || o3 != v || o4 != v) {
                    FAIL(fam, "Get*", "value-mismatch", "v=%" PRIu64 " width=%d Get=%" PRIu64 " Quick=%" PRIu64 " QuickMedium=%" PRIu64 " RV=%" PRIu64, v, W, o1, o2, o3, o4);
                }
                g_fixedwidth_seen[1 + be][W]++;
                STAT_INC("c01_external_fixed_calls");
            }
#if VERIF_ASAN
            {
                uint8_t *h = malloc((size_t)W);
                snprintf(g_sub, sizeof g_sub, "exact-heap %s fixed W=%d v=%" PRIu64, fam, W, v);
                if (be) {
                    varintExternalBigEndianPutFixedWidth(h, v, (varintWidth)W);
                    (void)varintExternalBigEndianGet(h, (varintWidth)W);
                } else {
                    varintExternalPutFixedWidth(h, v, (varintWidth)W);
                    (void)varintExternalGet(h, (varintWidth)W);
                }
                g_sub[0] = 0;
                free(h);
            }
#endif
        }
    }
    /* widths 9..16 through the Big pair */
    {
        int W = 9 + (int)rng_below(r, 8);
        __uint128_t big = ((__uint128_t)rng_next(r) << 64) | v;
        if (rng_chance(r, 1, 2)) {
            big = v; /* a value that would fit 8 bytes, stored in a wider slot over whatever the slot held */
            STAT_INC("c01_big_calls_with_small_value");
        }
        if (W < 16) {
            big &= (((__uint128_t)1) << (8 * W)) - 1;
        }
        arena_reset();
        uint8_t *w = win();
        g_ctx = "varintExternalPutFixedWidthBig";
        varintExternalPutFixedWidthBig(w, big, (varintWidth)W);
        if (!arena_outside_ok(w, (size_t)W)) {
            FAIL("externalLE", "PutFixedWidthBig", "write-outside-length", "width=%d", W);
        }
        g_ctx = "varintBigExternalGet";
        __uint128_t o = varintBigExternalGet(w, (varintWidth)W);
        if (o != big) {
            FAIL("externalLE", "BigExternalGet", "value-mismatch", "width=%d lo=%" PRIu64, W, (uint64_t)big);
        }
        for (int i = 0; i < W; i++) {
            if (w[i] != (uint8_t)(big >> (8 * i))) {
                FAIL("externalLE", "PutFixedWidthBig", "value-mismatch", "width=%d byte %d", W, i);
                break;
            }
        }
        STAT_INC("c01_big_calls");
    }
}

/* signed-storage helpers */
static void c01_signed(uint64_t v, rng_t *r) {
    static const int widths[4] = {3, 5, 6, 7};
    for (int wi = 0; wi < 4; wi++) {
        int W = widths[wi];
        uint64_t magmask = (1ULL << (8 * W - 1)) - 1;
        int64_t x = (int64_t)(v & magmask);
        if (rng_chance(r, 1, 2)) {
            x = -x;
        }
        uint8_t buf[8];
        int64_t back;
        const char *nm;
        if (W == 3) {
            int32_t val = (int32_t)x;
            nm = "varintPrepareSigned32to24_";
            g_ctx = nm;
            varintPrepareSigned32to24_(val);
            varintExternalPutFixedWidth(buf, (uint64_t)(uint32_t)val, VARINT_WIDTH_24B);
            int32_t res = (int32_t)varintExternalGet(buf, VARINT_WIDTH_24B);
            varintRestoreSigned24to32_(res);
            back = res;
        } else {
            int64_t val = x;
            int64_t res;
            if (W == 5) {
                nm = "varintPrepareSigned64to40_";
                g_ctx = nm;
                varintPrepareSigned64to40_(val);
                varintExternalPutFixedWidth(buf, (uint64_t)val, VARINT_WIDTH_40B);
                res = (int64_t)varintExternalGet(buf, VARINT_WIDTH_40B);
                varintRestoreSigned40to64_(res);
            } else if (W == 6) {
                nm = "varintPrepareSigned64to48_";
                g_ctx = nm;
                varintPrepareSigned64to48_(val);
                varintExternalPutFixedWidth(buf, (uint64_t)val, VARINT_WIDTH_48B);
                res = (int64_t)varintExternalGet(buf, VARINT_WIDTH_48B);
                varintRestoreSigned48to64_(res);
            } else {
                nm = "varintPrepareSigned64to56_";
                g_ctx = nm;
                varintPrepareSigned64to56_(val);
                varintExternalPutFixedWidth(buf, (uint64_t)val, VARINT_WIDTH_56B);
                res = (int64_t)varintExternalGet(buf, VARINT_WIDTH_56B);
                varintRestoreSigned56to64_(res);
            }
            back = res;
        }
        if (back != x) {
            FAIL("signedHelpers", nm, x < 0 ? "negative-not-restored" : "positive-not-restored", "x=%" PRId64 " restored=%" PRId64 " width=%d", x, back, W);
        }
        if (x < 0) {
            STAT_INC("c01_signed_negative_cases");
        }
        STAT_INC("c01_signed_cases");
    }
}

/* macros given compile-time constant arguments (literals), once per process */
#define CONSTS(X)                                                                                                      \
    X(0ULL) X(1ULL) X(63ULL) X(64ULL) X(127ULL) X(128ULL) X(240ULL) X(241ULL) X(2287ULL) X(2288ULL) X(16383ULL) X(16384ULL) X(16446ULL) \
    X(16447ULL) X(67823ULL) X(67824ULL) X(4210749ULL) X(4210750ULL) X(4210751ULL) X(16777215ULL) X(16777216ULL) X(1077952509ULL)        \
    X(1077952510ULL) X(4294967295ULL) X(4294967296ULL) X(1099511627775ULL) X(1099511627776ULL) X(123456789012345ULL)                  \
    X(281474976710655ULL) X(281474976710656ULL) X(72057594037927935ULL) X(72057594037927936ULL) X(9223372036854775807ULL)             \
    X(18446744073709551615ULL)
static void c01_constant_arguments(void) {
#define X(lit)                                                                                                         \
    do {                                                                                                               \
        int want = ref_tagged_len(lit);                                                                                \
        if ((int)varintTaggedLenQuick(lit) != want) FAIL("tagged", "LenQuick", "length-disagrees", "constant argument " #lit ": %d, Len says %d", (int)varintTaggedLenQuick(lit), want); \
        varintWidth ue;                                                                                                \
        varintExternalUnsignedEncoding(lit, ue);                                                                       \
        if ((int)ue != ref_bytes_needed(lit)) FAIL("externalLE", "UnsignedEncoding", "length-disagrees", "constant argument " #lit); \
        uint8_t b[16], rb[16];                                                                                         \
        varintWidth l1 = 0, l2 = 0, l3 = 0, l4 = 0;                                                                    \
        varintSplitPut_(b, l1, lit);                                                                                   \
        varintSplitLength_(l2, lit);                                                                                   \
        if ((int)l1 != ref_split(rb, lit) || l1 != l2 || memcmp(b, rb, l1)) FAIL("split", "Put_", "length-disagrees", "constant argument " #lit); \
        varintSplitFullPut_(b, l3, lit);                                                                               \
        varintSplitFullLength_(l4, lit);                                                                               \
        if ((int)l3 != ref_splitfull(rb, lit) || l3 != l4 || memcmp(b, rb, l3)) FAIL("splitFull", "Put_", "length-disagrees", "constant argument " #lit); \
        varintSplitFull16Put_(b, l1, lit);                                                                             \
        varintSplitFull16Length_(l2, lit);                                                                             \
        if ((int)l1 != ref_split16(rb, lit) || l1 != l2 || memcmp(b, rb, l1)) FAIL("splitFull16", "Put_", "length-disagrees", "constant argument " #lit); \
        if ((lit) >= 1) {                                                                                              \
            varintSplitFullNoZeroPut_(b, l1, lit);                                                                     \
            varintSplitFullNoZeroLength_(l2, lit);                                                                     \
            if ((int)l1 != ref_splitnz(rb, lit) || l1 != l2 || memcmp(b, rb, l1)) FAIL("splitFullNoZero", "Put_", "length-disagrees", "constant argument " #lit); \
        }                                                                                                              \
        STAT_INC("c01_constant_argument_checks");                                                                      \
    } while (0);
    CONSTS(X)
#undef X
}

static void c01_value(uint64_t v, rng_t *r) {
    for (size_t fi = 0; fi < NFAMS; fi++) {
        c01_family(&FAMS[fi], (int)fi, v);
    }
    c01_tagged_fixed(v);
    c01_tagged_lenmax(v, r);
    c01_external(v, r);
    c01_signed(v, r);
}

/* ================================================================= C04 */
static void c04_check_bytes(const char *fam, const char *entry, uint64_t v, const uint8_t *got, int gn, const uint8_t *want, int wn) {
    if (gn != wn || memcmp(got, want, (size_t)wn)) {
        FAIL(fam, entry, "bytes-differ-from-documented-format", "v=%" PRIu64 " library=%s (%d) reference=%s (%d)", v, hexs(got, (size_t)(gn > 0 && gn < 16 ? gn : 0)), gn, hexs(want, (size_t)wn), wn);
    }
}
static void c04_value(uint64_t v) {
    uint8_t rb[16], rb2[16];
    for (size_t fi = 0; fi < NFAMS; fi++) {
        const fam_t *F = &FAMS[fi];
        if (v < F->minval) {
            continue;
        }
        int rl = F->ref(rb, v);
        g_lenclass[fi][rl]++;
        for (int pi = 0; pi < 6 && F->puts[pi].f; pi++) {
            if (F->puts[pi].only32 && v > UINT32_MAX) {
                continue;
            }
            arena_reset();
            int n = F->puts[pi].f(win(), v);
            c04_check_bytes(F->name, F->puts[pi].name, v, win(), n, rb, rl);
            STAT_INC("c04_byte_comparisons");
        }
        /* data written by another implementation of the format is readable */
        for (int gi = 0; gi < 8 && F->gets[gi].f; gi++) {
            if (F->gets[gi].only32 && v > UINT32_MAX) {
                continue;
            }
            arena_reset();
            memcpy(win(), rb, (size_t)rl);
            uint64_t out = ~v;
            int gn = F->gets[gi].f(win(), &out);
            if (out != v || gn != rl) {
                FAIL(F->name, F->gets[gi].name, "reference-bytes-misread", "v=%" PRIu64 " bytes=%s decoded=%" PRIu64 " len=%d", v, hexs(rb, (size_t)rl), out, gn);
            }
        }
        /* length monotone: len(v) <= len(v+1), and the reference agrees on v+1 */
        if (v != UINT64_MAX) {
            int l0 = F->lens[0].f(v), l1 = F->lens[0].f(v + 1);
            int r1 = F->ref(rb2, v + 1);
            bool knob = false;
#ifdef VARINT_SPLIT_FULL_USE_MAXIMUM_RANGE
            knob = knob || !strcmp(F->name, "splitFull");
#endif
#ifdef VARINT_SPLIT_FULL_NO_ZERO_USE_MAXIMUM_RANGE
            knob = knob || !strcmp(F->name, "splitFullNoZero");
#endif
            if (l0 > l1 && !knob) {
                FAIL(F->name, F->lens[0].name, "length-decreases-with-value", "len(%" PRIu64 ")=%d > len(+1)=%d", v, l0, l1);
            }
            if (l1 != r1 || l0 != rl) {
                FAIL(F->name, F->lens[0].name, "length-differs-from-documented-format", "v=%" PRIu64 " len %d/%d reference %d/%d", v, l0, l1, rl, r1);
            }
            if (l1 != l0) {
                STAT_INC("c04_length_boundaries_crossed");
            }
        }
    }
    /* external: minimal little/big endian slice */
    {
        int rl = ref_external_le(rb, v);
        arena_reset();
        g_ctx = "varintExternalPut";
        int n = varintExternalPut(win(), v);
        c04_check_bytes("externalLE", "Put", v, win(), n, rb, rl);
        g_lenclass[NFAMS][rl]++;
        rl = ref_external_be(rb, v);
        arena_reset();
        g_ctx = "varintExternalBigEndianPut";
        n = varintExternalBigEndianPut(win(), v);
        c04_check_bytes("externalBE", "Put", v, win(), n, rb, rl);
        g_lenclass[NFAMS + 1][rl]++;
        uint64_t o = varintExternalBigEndianGet(rb, (varintWidth)rl);
        if (o != v) {
            FAIL("externalBE", "Get", "reference-bytes-misread", "v=%" PRIu64 " got %" PRIu64, v, o);
        }
        STAT_ADD("c04_byte_comparisons", 2);
        /* fixed widths (every width from the minimal one up to 8, and 9..16 through the 128-bit writer) are the value's
         * little-endian bytes zero-extended, whatever the slot held before */
        int minw = ref_external_le(rb, v);
        int W = minw + (int)(v % (uint64_t)(17 - minw));
        uint8_t want[16];
        for (int i = 0; i < 16; i++) want[i] = i < 8 ? (uint8_t)(v >> (8 * i)) : 0;
        arena_reset();
        if (W <= 8) {
            g_ctx = "varintExternalPutFixedWidth";
            varintExternalPutFixedWidth(win(), v, (varintWidth)W);
            c04_check_bytes("externalLE", "PutFixedWidth", v, win(), W, want, W);
        } else {
            g_ctx = "varintExternalPutFixedWidthBig";
            varintExternalPutFixedWidthBig(win(), (__uint128_t)v, (varintWidth)W);
            c04_check_bytes("externalLE", "PutFixedWidthBig", v, win(), W, want, W);
        }
        STAT_INC("c04_fixed_width_external_byte_comparisons");
    }
    /* zig-zag */
    {
        int64_t s = (int64_t)v;
        g_ctx = "varintDeltaZigZag";
        uint64_t z = varintDeltaZigZag(s);
        if (z != ref_zigzag(s)) {
            FAIL("zigzag", "varintDeltaZigZag", "value-differs-from-definition", "n=%" PRId64 " got %" PRIu64 " want %" PRIu64, s, z, ref_zigzag(s));
        }
        int64_t b = varintDeltaZigZagDecode(v);
        if (b != ref_unzigzag(v)) {
            FAIL("zigzag", "varintDeltaZigZagDecode", "value-differs-from-definition", "z=%" PRIu64 " got %" PRId64 " want %" PRId64, v, b, ref_unzigzag(v));
        }
        STAT_INC("c04_zigzag_cases");
    }
    /* Elias gamma / delta code words */
    if (v >= 1) {
        char want[160], got[160];
        uint8_t buf[24];
        for (int delta = 0; delta < 2; delta++) {
            const char *nm = delta ? "varintEliasDeltaEncode" : "varintEliasGammaEncode";
            int wn = delta ? ref_delta_bits(want, v) : ref_gamma_bits(want, v);
            memset(buf, 0, sizeof buf);
            varintBitWriter bw;
            varintBitWriterInit(&bw, buf, sizeof buf);
            g_ctx = nm;
            size_t nb = delta ? varintEliasDeltaEncode(&bw, v) : varintEliasGammaEncode(&bw, v);
            size_t pb = delta ? varintEliasDeltaBits(v) : varintEliasGammaBits(v);
            for (int i = 0; i < wn && i < 159; i++) {
                got[i] = ((buf[i / 8] >> (7 - i % 8)) & 1) ? '1' : '0';
            }
            got[wn < 159 ? wn : 159] = 0;
            if ((int)nb != wn || (int)pb != wn || (int)bw.bitPos != wn || strcmp(got, want)) {
                FAIL("elias", nm, "bits-differ-from-definition", "v=%" PRIu64 " bits=%zu predicted=%zu want=%d got=%s want=%s", v, nb, pb, wn, got, want);
            }
            /* nothing but the code word was written */
            for (int i = wn; i < (int)sizeof buf * 8; i++) {
                if ((buf[i / 8] >> (7 - i % 8)) & 1) {
                    FAIL("elias", nm, "write-outside-length", "v=%" PRIu64 " stray bit %d", v, i);
                    break;
                }
            }
            varintBitReader br;
            varintBitReaderInit(&br, buf, (size_t)wn);
            uint64_t o = delta ? varintEliasDeltaDecode(&br) : varintEliasGammaDecode(&br);
            if (o != v || (int)br.bitPos != wn) {
                FAIL("elias", delta ? "varintEliasDeltaDecode" : "varintEliasGammaDecode", "value-mismatch", "v=%" PRIu64 " got %" PRIu64, v, o);
            }
            STAT_INC("c04_elias_codewords");
        }
    }
    /* the bit writer itself: fields of arbitrary width whose value argument still carries bits above the field
     * (only the low nBits belong to the stream), MSB first, checked against a bit-by-bit model */
    {
        uint8_t buf[40], model[40];
        memset(buf, 0, sizeof buf);
        memset(model, 0, sizeof model);
        varintBitWriter bw;
        varintBitWriterInit(&bw, buf, sizeof buf);
        size_t pos = 0;
        uint64_t x = v * 0x9E3779B97F4A7C15ULL + 1;
        g_ctx = "varintBitWriterWrite";
        for (int f = 0; f < 12; f++) {
            x ^= x << 13; x ^= x >> 7; x ^= x << 17;
            size_t nb = 1 + (size_t)(x % (f & 1 ? 7 : 24));
            uint64_t val = (f % 3 == 0) ? ~0ULL : (f % 3 == 1 ? x : (x & ((1ULL << nb) - 1)));
            if (pos + nb > sizeof buf * 8) break;
            varintBitWriterWrite(&bw, val, nb);
            for (size_t b = 0; b < nb; b++) {
                if ((val >> (nb - 1 - b)) & 1) model[(pos + b) / 8] |= (uint8_t)(0x80u >> ((pos + b) % 8));
            }
            pos += nb;
        }
        if (bw.bitPos != pos || memcmp(buf, model, sizeof buf)) {
            FAIL("elias", "varintBitWriterWrite", "bits-differ-from-definition", "v=%" PRIu64 " %zu bits written: %s, MSB-first model: %s", v, pos, hexs(buf, 12), hexs(model, 12));
        }
        STAT_INC("c04_bit_writer_field_sequences");
    }
}

/* per-length maxima: constants, measured encoder behaviour, README tables */
static void c04_tables(void) {
    struct { const char *fam; const char *readme_row; put_fn ref; len_fn len; uint64_t minval; } T[] = {
        {"tagged", "Tagged", ref_tagged, tg_len, 0},
        {"split", "Split", ref_split, sp_len, 0},
        {"splitFull", "Split Full", ref_splitfull, sf_len, 0},
        {"splitFullNoZero", "Split Full No Zero", ref_splitnz, nz_len, 1},
        {"splitFull16", "Split Full 16", ref_split16, s16_len, 0},
        {"chained", "Chained", ref_chained, ch_len, 0},
        {"chainedSimple", NULL, ref_chained_simple, cs_len, 0},
    };
    uint64_t maxima[8][10];
    memset(maxima, 0, sizeof maxima);
    for (size_t t = 0; t < sizeof T / sizeof T[0]; t++) {
        /* measured maximum value of each length, by binary search on the
         * library's own length function (monotone per the per-value check) */
        for (int L = 1; L <= 9; L++) {
            uint64_t lo = T[t].minval, hi = UINT64_MAX;
            if (T[t].len(lo) > L) {
                continue;
            }
            while (lo < hi) {
                uint64_t mid = lo + (hi - lo) / 2 + 1;
                if (T[t].len(mid) <= L) {
                    lo = mid;
                } else {
                    hi = mid - 1;
                }
            }
            if (T[t].len(lo) != L) {
                continue; /* no value has this length */
            }
            maxima[t][L] = lo;
            uint8_t rb[16];
            int rl = T[t].ref(rb, lo);
            int rl1 = lo == UINT64_MAX ? L + 1 : T[t].ref(rb, lo + 1);
            if (rl != L || rl1 != L + 1) {
                FAIL(T[t].fam, "Len", "per-length-maximum-differs-from-documented-format", "length %d: measured max %" PRIu64 ", reference lengths %d/%d", L, lo, rl, rl1);
            }
            STAT_INC("c04_per_length_maxima_checked");
        }
    }
    /* header constants */
    struct { const char *name; uint64_t c; uint64_t measured; } K[] = {
        {"VARINT_TAGGED_MAX_1", VARINT_TAGGED_MAX_1, maxima[0][1]}, {"VARINT_TAGGED_MAX_2", VARINT_TAGGED_MAX_2, maxima[0][2]},
        {"VARINT_TAGGED_MAX_3", VARINT_TAGGED_MAX_3, maxima[0][3]}, {"VARINT_TAGGED_MAX_4", VARINT_TAGGED_MAX_4, maxima[0][4]},
        {"VARINT_TAGGED_MAX_5", VARINT_TAGGED_MAX_5, maxima[0][5]}, {"VARINT_TAGGED_MAX_6", VARINT_TAGGED_MAX_6, maxima[0][6]},
        {"VARINT_TAGGED_MAX_7", VARINT_TAGGED_MAX_7, maxima[0][7]}, {"VARINT_TAGGED_MAX_8", VARINT_TAGGED_MAX_8, maxima[0][8]},
        {"VARINT_TAGGED_MAX_9", VARINT_TAGGED_MAX_9, maxima[0][9]},
        {"VARINT_SPLIT_MAX_6", VARINT_SPLIT_MAX_6, maxima[1][1]},
        {"VARINT_SPLIT_FULL_STORAGE_1", VARINT_SPLIT_FULL_STORAGE_1, maxima[2][1]}, {"VARINT_SPLIT_FULL_STORAGE_2", VARINT_SPLIT_FULL_STORAGE_2, maxima[2][2]},
        {"VARINT_SPLIT_FULL_STORAGE_4", VARINT_SPLIT_FULL_STORAGE_4, maxima[2][4]},
        {"VARINT_SPLIT_FULL_STORAGE_5", VARINT_SPLIT_FULL_STORAGE_5, maxima[2][5]}, {"VARINT_SPLIT_FULL_STORAGE_6", VARINT_SPLIT_FULL_STORAGE_6, maxima[2][6]},
        {"VARINT_SPLIT_FULL_STORAGE_7", VARINT_SPLIT_FULL_STORAGE_7, maxima[2][7]}, {"VARINT_SPLIT_FULL_STORAGE_8", VARINT_SPLIT_FULL_STORAGE_8, maxima[2][8]},
        {"VARINT_SPLIT_FULL_STORAGE_9", VARINT_SPLIT_FULL_STORAGE_9, maxima[2][9]},
        {"VARINT_SPLIT_FULL_NO_ZERO_STORAGE_1", VARINT_SPLIT_FULL_NO_ZERO_STORAGE_1, maxima[3][1]},
        {"VARINT_SPLIT_FULL_NO_ZERO_STORAGE_2", VARINT_SPLIT_FULL_NO_ZERO_STORAGE_2, maxima[3][2]},
        {"VARINT_SPLIT_FULL_NO_ZERO_STORAGE_4", VARINT_SPLIT_FULL_NO_ZERO_STORAGE_4, maxima[3][4]},
        {"VARINT_SPLIT_FULL_NO_ZERO_STORAGE_5", VARINT_SPLIT_FULL_NO_ZERO_STORAGE_5, maxima[3][5]},
        {"VARINT_SPLIT_FULL_NO_ZERO_STORAGE_9", VARINT_SPLIT_FULL_NO_ZERO_STORAGE_9, maxima[3][9]},
        {"VARINT_SPLIT_FULL_16_MAX_14", VARINT_SPLIT_FULL_16_MAX_14, maxima[4][2]}, {"VARINT_SPLIT_FULL_16_MAX_22", VARINT_SPLIT_FULL_16_MAX_22, maxima[4][3]},
        {"VARINT_SPLIT_FULL_16_MAX_30", VARINT_SPLIT_FULL_16_MAX_30, maxima[4][4]},
    };
    for (size_t i = 0; i < sizeof K / sizeof K[0]; i++) {
        if (K[i].c != K[i].measured) {
            char key[160];
            snprintf(key, sizeof key, "C04:constants.%s:per-length-maximum-constant-differs-from-encoder", K[i].name);
            viol(key, "constant %" PRIu64 " measured %" PRIu64, K[i].c, K[i].measured);
        }
        STAT_INC("c04_constants_checked");
    }
    /* README capacity table (first table: "| varint | length stored in | 1 byte max | ...") */
    const char *repo = getenv("VERIF_REPO");
    char path[512];
    snprintf(path, sizeof path, "%s/README.md", repo ? repo : "/repo");
    FILE *f = fopen(path, "r");
    if (!f) {
        viol("C04:README:unreadable", "%s", path);
        return;
    }
    char line[1024];
    int table = 0;
    while (fgets(line, sizeof line, f)) {
        if (strstr(line, "| varint") && strstr(line, "length stored in")) {
            table = 1;
            continue;
        }
        if (strstr(line, "| varint") && strstr(line, "level")) {
            table = 2;
            continue;
        }
        if (line[0] != '|') {
            table = 0;
            continue;
        }
        if (!table || strstr(line, "---")) {
            continue;
        }
        /* split cells */
        char *cells[10];
        int nc = 0;
        for (char *tok = strtok(line + 1, "|"); tok && nc < 10; tok = strtok(NULL, "|")) {
            while (*tok == ' ') tok++;
            char *e = tok + strlen(tok);
            while (e > tok && (e[-1] == ' ' || e[-1] == '\n')) *--e = 0;
            cells[nc++] = tok;
        }
        if (nc < 6) {
            continue;
        }
        int t = -1;
        for (size_t k = 0; k < sizeof T / sizeof T[0]; k++) {
            if (T[k].readme_row && !strcmp(T[k].readme_row, cells[0])) {
                t = (int)k;
            }
        }
        if (t < 0) {
            continue; /* External rows: checked arithmetically below */
        }
        for (int L = 1; L <= 4; L++) {
            const char *c = cells[1 + L];
            if (!strcmp(c, "X")) {
                continue;
            }
            uint64_t val = 0;
            for (const char *p = c; *p; p++) {
                if (*p >= '0' && *p <= '9') val = val * 10 + (uint64_t)(*p - '0');
            }
            uint64_t want = maxima[t][L];
            if (table == 2) {
                /* "level" table: first-level rows give the embedded-level maxima,
                 * second-level rows the external-level maxima: both are maxima of
                 * *some* value set with that length; the cell must be a value whose
                 * measured length is L while cell+1 is longer or of the next level.
                 * Checked as: len(cell) == L and the cell is a level maximum per reference. */
                uint8_t rb[16], rb2[16];
                int a = T[t].ref(rb, val), b = T[t].ref(rb2, val + 1);
                bool levelmax = (a == L) && (b != a || (rb[0] & 0xC0) != (rb2[0] & 0xC0));
                if (T[t].len(val) != L || !levelmax) {
                    char key[200];
                    snprintf(key, sizeof key, "C04:README.level-table.%s.%s.%d-byte:documented-maximum-differs-from-encoder", cells[0], cells[1], L);
                    viol(key, "README says %" PRIu64 "; encoder length of that value is %d, of value+1 is %d", val, T[t].len(val), T[t].len(val + 1));
                }
            } else if (val != want) {
                char key[200];
                snprintf(key, sizeof key, "C04:README.capacity-table.%s.%d-byte:documented-maximum-differs-from-encoder", cells[0], L);
                viol(key, "README says %" PRIu64 ", largest value the encoder stores in %d bytes is %" PRIu64, val, L, want);
            }
            STAT_INC("c04_readme_cells_checked");
        }
    }
    fclose(f);
}

/* ================================================================= C05 */
typedef struct {
    uint8_t b[40];
    uint8_t len;
    uint8_t ncomp;
    uint64_t v[4];
} skey_t;
static int sgn(int x) { return (x > 0) - (x < 0); }
static int skey_cmp(const void *pa, const void *pb) {
    const skey_t *a = pa, *b = pb;
    int m = a->len < b->len ? a->len : b->len;
    int c = memcmp(a->b, b->b, (size_t)m);
    if (c) {
        return c;
    }
    return (int)a->len - (int)b->len;
}
static int tuple_cmp(const skey_t *a, const skey_t *b) {
    for (int i = 0; i < a->ncomp; i++) {
        if (a->v[i] != b->v[i]) {
            return a->v[i] < b->v[i] ? -1 : 1;
        }
    }
    return 0;
}
/* keys are produced by every tagged producer in turn: Put64, the fixed-width quick macro given an expression
 * argument, and an in-place add that arrives at the value */
static unsigned g_c05_producer;
static int c05_encode(uint8_t *e, uint64_t v) {
    switch (g_c05_producer % 6) {
    case 4: { /* a slot first written wider than needed (fixed width), then updated in place to the value */
        uint64_t h = (v ^ (v >> 31)) * 0xD6E8FEB86659FD93ULL + g_c05_producer;
        uint64_t d = (h >> 9) % 300;
        bool up = (h >> 8) & 1; /* arrive from below or from above */
        uint64_t from = up ? v - d : v + d;
        if (v <= (uint64_t)INT64_MAX - 400 && (!up || v >= d)) {
            int minw = ref_tagged_len(from);
            int W = minw < 4 ? 4 + (int)((h >> 20) % 6) : minw + (int)((h >> 20) % (uint64_t)(10 - minw));
            if (W > 9) W = 9;
            bool grow = (h >> 7) & 1;
            g_ctx = grow ? "varintTaggedAddGrow" : "varintTaggedAddNoGrow";
            varintTaggedPut64FixedWidth(e, from, (varintWidth)W);
            int ret = grow ? (int)varintTaggedAddGrow(e, up ? (int64_t)d : -(int64_t)d) : (int)varintTaggedAddNoGrow(e, up ? (int64_t)d : -(int64_t)d);
            if (ret <= W || grow) { /* (a refused no-grow add leaves the slot as it was: not a key for v) */
                STAT_INC("c05_keys_updated_in_a_fixed_width_slot");
                return ret;
            }
        }
        g_ctx = "varintTaggedPut64";
        return (int)varintTaggedPut64(e, v);
    }
    case 5: { /* width chosen from the documented per-width maxima, written with the fixed-width writer */
        static const uint64_t maxima[9] = {VARINT_TAGGED_MAX_1, VARINT_TAGGED_MAX_2, VARINT_TAGGED_MAX_3, VARINT_TAGGED_MAX_4, VARINT_TAGGED_MAX_5,
                                           VARINT_TAGGED_MAX_6, VARINT_TAGGED_MAX_7, VARINT_TAGGED_MAX_8, VARINT_TAGGED_MAX_9};
        int W = 1;
        while (W < 9 && v > maxima[W - 1]) W++;
        g_ctx = "varintTaggedPut64FixedWidth(width from VARINT_TAGGED_MAX_n)";
        if (W <= 3) return (int)varintTaggedPut64(e, v); /* fixed widths below 4 only exist as the minimal width */
        varintTaggedPut64FixedWidth(e, v, (varintWidth)W);
        STAT_INC("c05_keys_with_width_from_documented_maxima");
        return W;
    }
    case 3: { /* an in-place add that arrives at the value from above, usually from a wider encoding */
        uint64_t h = (v ^ (v >> 29)) * 0x9E3779B97F4A7C15ULL + g_c05_producer;
        uint64_t d = 1 + ((h >> 8) >> (h % 56)); /* log-uniform amounts */
        if (v <= (uint64_t)INT64_MAX - 300 && d <= (uint64_t)INT64_MAX - 300 - v) {
            bool grow = (h >> 7) & 1;
            g_ctx = grow ? "varintTaggedAddGrow" : "varintTaggedAddNoGrow";
            varintTaggedPut64(e, v + d);
            STAT_INC("c05_keys_reached_by_subtracting");
            if (varintTaggedLen(v + d) > varintTaggedLen(v)) STAT_INC("c05_keys_reached_by_subtracting_across_a_width_boundary");
            return grow ? (int)varintTaggedAddGrow(e, -(int64_t)d) : (int)varintTaggedAddNoGrow(e, -(int64_t)d);
        }
    }
    /* fall through */
    case 0:
        g_ctx = "varintTaggedPut64";
        return (int)varintTaggedPut64(e, v);
    case 1: {
        varintWidth w = varintTaggedLenQuick(v | g_zero);
        g_ctx = "varintTaggedPut64FixedWidthQuick_";
        varintTaggedPut64FixedWidthQuick_(e + g_zoff, v | g_zero, w);
        return (int)w;
    }
    case 2: {
        uint64_t d = 2 + (v % 254);
        if (v >= d && v - d <= (uint64_t)INT64_MAX - 300 && v <= (uint64_t)INT64_MAX) {
            g_ctx = "varintTaggedAddGrow";
            varintTaggedPut64(e, v - d);
            return (int)varintTaggedAddGrow(e, (int64_t)d);
        }
    }
    /* fall through */
    default:
        g_ctx = "varintTaggedPut64";
        return (int)varintTaggedPut64(e, v);
    }
}
static void c05_pair(uint64_t a, uint64_t b, const char *gen) {
    uint8_t ea[9], eb[9];
    g_c05_producer++;
    int la = c05_encode(ea, a), lb = c05_encode(eb, b);
    int m = la < lb ? la : lb;
    int c = sgn(memcmp(ea, eb, (size_t)m));
    int want = (a > b) - (a < b);
    if (c != want) {
        char key[160];
        snprintf(key, sizeof key, "C05:tagged.memcmp:%s:order-differs-from-numeric", gen);
        viol(key, "a=%" PRIu64 " (%s) b=%" PRIu64 " (%s) memcmp=%d numeric=%d", a, hexs(ea, (size_t)la), b, hexs(eb, (size_t)lb), c, want);
    }
    if (a == b && (la != lb || memcmp(ea, eb, (size_t)la))) {
        viol("C05:tagged.memcmp:equal-values-different-bytes", "a=%" PRIu64, a);
    }
    if (g_c05_producer % 6) { /* the same value from the plain encoder */
        uint8_t pa[9];
        int lp = varintTaggedPut64(pa, a);
        if (lp != la || memcmp(pa, ea, (size_t)lp)) {
            viol("C05:tagged.memcmp:equal-values-different-bytes", "a=%" PRIu64 " from %s: %s, from varintTaggedPut64: %s", a, g_ctx, hexs(ea, (size_t)(la > 0 && la <= 9 ? la : 0)), hexs(pa, (size_t)lp));
        }
    }
    if (la != lb || (m > 1 && memcmp(ea, eb, (size_t)m - 1))) {
        STAT_INC("c05_nontrivial_pairs");
    }
    STAT_INC("c05_pairs");
}
static uint64_t c05_mixvalue(rng_t *r, const uint64_t *pool, size_t npool) {
    if (npool && rng_chance(r, 1, 4)) {
        uint64_t v = pool[rng_below(r, npool)]; /* duplicates and near-duplicates */
        return rng_chance(r, 1, 2) ? v : v + rng_below(r, 3) - 1;
    }
    return gen_value(r);
}
static void c05_case(uint64_t idx, rng_t *r) {
    uint64_t g = idx * g_nshards + g_shard;
    uint64_t E = g_param[0];
    /* (1) adjacent pairs */
    uint64_t v = g < E ? g : gen_value(r);
    if (v != UINT64_MAX) {
        c05_pair(v, v + 1, "adjacent");
        c05_pair(v + 1, v, "adjacent");
    }
    c05_pair(v, v, "adjacent");
    if (g < E) {
        return; /* enumerated part: adjacent pairs only */
    }
    /* random pair */
    {
        uint64_t ra = gen_value(r);
        uint64_t rb = gen_value(r);
        c05_pair(ra, rb, "random");
    }
    /* (2) one-payload-byte perturbation */
    {
        uint8_t e[9], p[9];
        int l = varintTaggedPut64(e, v);
        if (l > 1) {
            memcpy(p, e, 9);
            int pos = 1 + (int)rng_below(r, (uint64_t)l - 1);
            p[pos] = (uint8_t)(p[pos] + 1 + rng_below(r, 255));
            uint64_t w = 0;
            g_ctx = "varintTaggedGet64";
            int lw = varintTaggedGet64(p, &w);
            uint8_t canon[9];
            int lc = ref_tagged(canon, w);
            if (lw == l && lc == l && !memcmp(canon, p, (size_t)l)) {
                c05_pair(v, w, "one-byte-perturbation");
                STAT_INC("c05_perturbation_pairs");
            }
        }
    }
    /* (3) sort test (scalars and tuples), once every 64 mixture cases */
    if ((idx & 63) != 0) {
        return;
    }
    size_t K = g_param[1] ? g_param[1] : 4096;
    skey_t *keys = malloc(K * sizeof *keys);
    uint64_t *pool = malloc(K * sizeof *pool);
    for (int ncomp = 1; ncomp <= 4; ncomp++) {
        size_t np = 0;
        for (size_t i = 0; i < K; i++) {
            skey_t *k = &keys[i];
            k->len = 0;
            k->ncomp = (uint8_t)ncomp;
            for (int c = 0; c < ncomp; c++) {
                uint64_t x = c05_mixvalue(r, pool, np);
                /* tuples: make leading components collide often so later components decide */
                if (ncomp > 1 && c < ncomp - 1 && np && rng_chance(r, 2, 3)) {
                    x = pool[rng_below(r, np < 8 ? np : 8)];
                }
                k->v[c] = x;
                k->len = (uint8_t)(k->len + varintTaggedPut64(k->b + k->len, x));
                if (np < K) {
                    pool[np++] = x;
                }
            }
        }
        qsort(keys, K, sizeof *keys, skey_cmp);
        for (size_t i = 1; i < K; i++) {
            int tc = tuple_cmp(&keys[i - 1], &keys[i]);
            if (tc > 0) {
                char key[160];
                snprintf(key, sizeof key, "C05:tagged.sort:%d-tuple:order-differs-from-numeric", ncomp);
                viol(key, "after memcmp sort, key %zu (%" PRIu64 ",%" PRIu64 ",..) precedes (%" PRIu64 ",%" PRIu64 ",..) bytes %s | %s", i, keys[i - 1].v[0], keys[i - 1].v[1], keys[i].v[0], keys[i].v[1], hexs(keys[i - 1].b, keys[i - 1].len), hexs(keys[i].b, keys[i].len));
                break;
            }
            bool same = keys[i - 1].len == keys[i].len && !memcmp(keys[i - 1].b, keys[i].b, keys[i].len);
            if ((tc == 0) != same) {
                viol("C05:tagged.sort:equal-iff-identical-bytes", "%d-tuple index %zu", ncomp, i);
                break;
            }
            int m = keys[i - 1].len < keys[i].len ? keys[i - 1].len : keys[i].len;
            if (tc != 0 && !memcmp(keys[i - 1].b, keys[i].b, (size_t)m)) {
                viol("C05:tagged.sort:proper-prefix", "%d-tuple index %zu: one key is a proper prefix of another", ncomp, i);
                break;
            }
        }
        stat_add(ncomp == 1 ? "c05_scalar_sorts" : "c05_tuple_sorts", 1);
        STAT_ADD("c05_pairs_certified_by_sorts", (uint64_t)K * (K - 1) / 2);
        if (want_sample() && ncomp == 3) {
            sample("{\"sorted_3tuple_keys\":%zu,\"first\":[%" PRIu64 ",%" PRIu64 ",%" PRIu64 "],\"first_bytes\":\"%s\"}", K, keys[0].v[0], keys[0].v[1], keys[0].v[2], hexs(keys[0].b, keys[0].len));
        }
    }
    free(keys);
    free(pool);
}

/* ================================================================= C12 */
static uint64_t g_c12_class[4][4]; /* family x outcome */
enum { OC_OVERFLOW, OC_REFUSED, OC_SAMEWIDTH, OC_WIDTHCHANGED };
static int64_t c12_amount(rng_t *r, int64_t s) {
    switch (rng_below(r, 8)) {
    case 0:
        return rng_chance(r, 1, 2) ? 1 : -1;
    case 1: {
        int64_t p = (int64_t)(1ULL << rng_below(r, 63));
        return rng_chance(r, 1, 2) ? p : -p;
    }
    case 2: { /* land exactly on / next to a width boundary */
        uint64_t b = g_bound[rng_below(r, (uint64_t)g_nbound)];
        b += rng_below(r, 5);
        b -= 2;
        return (int64_t)(b - (uint64_t)s);
    }
    case 3:
        return rng_chance(r, 1, 2) ? INT64_MAX - (int64_t)rng_below(r, 3) : INT64_MIN + (int64_t)rng_below(r, 3);
    case 4: /* overflow edges */
        return s >= 0 ? (int64_t)((uint64_t)(INT64_MAX - s) + rng_below(r, 3) - 1) : (int64_t)((uint64_t)(INT64_MIN - s) - rng_below(r, 3) + 1);
    case 5:
        return (int64_t)(0 - (uint64_t)s + rng_below(r, 5) - 2);
    case 6:
        return (int64_t)gen_value(r);
    default:
        return (int64_t)rng_below(r, 600) - 300;
    }
}
static int c12_run(int family, bool grow, uint64_t su, int W, int64_t a, rng_t *r) {
    /* family 0 tagged, 1 external */
    static const char *const names[2][2] = {{"varintTaggedAddNoGrow", "varintTaggedAddGrow"}, {"varintExternalAddNoGrow", "varintExternalAddGrow"}};
    const char *nm = names[family][grow];
    int famMax = family == 0 ? 9 : 8;
    int64_t s = (int64_t)su;
    __int128 sum = (__int128)s + (__int128)a;
    bool overflow = sum > INT64_MAX || sum < INT64_MIN;
    uint64_t newU = (uint64_t)(int64_t)sum;
    int need = family == 0 ? ref_tagged_len(newU) : ref_bytes_needed(newU);
    (void)r;

    /* the slot: exactly W bytes for no-grow (heap block under ASan), family max for grow */
    size_t slot = grow ? (size_t)famMax : (size_t)W;
    gbuf_t gb;
    gbuf_alloc(&gb, slot, 32, (uint8_t)(su * 31 + (uint64_t)a));
    uint8_t before[16];
    memset(gb.p, 0xA5, slot);
    if (family == 0) {
        varintTaggedPut64FixedWidth(gb.p, su, (varintWidth)W);
    } else {
        varintExternalPutFixedWidth(gb.p, su, (varintWidth)W);
    }
    memcpy(before, gb.p, slot);
    g_ctx = nm;
    snprintf(g_sub, sizeof g_sub, "stored=%" PRIu64 " W=%d add=%" PRId64, su, W, a);
    int ret = family == 0 ? (grow ? (int)varintTaggedAddGrow(gb.p, a) : (int)varintTaggedAddNoGrow(gb.p, a))
                          : (grow ? (int)varintExternalAddGrow(gb.p, (varintWidth)W, a) : (int)varintExternalAddNoGrow(gb.p, (varintWidth)W, a));
    g_sub[0] = 0;
    char key[200];
#define K12(cls) (snprintf(key, sizeof key, "C12:%s:%s", nm, cls), key)
    long dmg = gbuf_check(&gb);
    if (dmg != -1) {
        viol(K12("modified-beyond-slot"), "stored=%" PRIu64 " W=%d add=%" PRId64 " first damaged offset %ld", su, W, a, dmg);
    }
    bool changed = memcmp(before, gb.p, slot) != 0;
    int oc;
    if (overflow) {
        oc = OC_OVERFLOW;
        if (ret != 0) {
            viol(K12("overflow-not-reported"), "stored=%" PRId64 " add=%" PRId64 " returned %d", s, a, ret);
        }
        if (changed) {
            viol(K12("overflow-modified-bytes"), "stored=%" PRId64 " add=%" PRId64, s, a);
        }
    } else if (!grow && need > W) {
        oc = OC_REFUSED;
        if (changed) {
            viol(K12("no-grow-modified-bytes-when-sum-needs-more"), "stored=%" PRIu64 " W=%d add=%" PRId64 " need=%d before=%s after=%s", su, W, a, need, hexs(before, slot), hexs(gb.p, slot));
        }
        if (ret != need) {
            viol(K12("no-grow-wrong-required-width"), "stored=%" PRIu64 " W=%d add=%" PRId64 " returned %d, required %d", su, W, a, ret, need);
        }
    } else {
        oc = (need == W) ? OC_SAMEWIDTH : OC_WIDTHCHANGED;
        uint64_t dec = ~newU;
        int storedw;
        if (ret < 1 || ret > famMax) {
            viol(K12("returned-width-out-of-range"), "stored=%" PRIu64 " W=%d add=%" PRId64 " returned %d", su, W, a, ret);
            goto done;
        }
        if (family == 0) {
            storedw = varintTaggedGet64(gb.p, &dec);
        } else {
            dec = varintExternalGet(gb.p, (varintWidth)ret);
            storedw = need; /* external has no self-describing width: what is stored is the minimal slice */
        }
        if (dec != newU) {
            viol(K12("stored-sum-wrong"), "stored=%" PRIu64 " W=%d add=%" PRId64 " want %" PRIu64 " got %" PRIu64 " (returned width %d) bytes=%s", su, W, a, newU, dec, ret, hexs(gb.p, slot));
        }
        if (ret != storedw) {
            viol(K12("returned-width-differs-from-stored-width"), "stored=%" PRIu64 " W=%d add=%" PRId64 " returned %d stored width %d", su, W, a, ret, storedw);
        }
        /* bytes beyond max(W, width now stored) inside the slot must be untouched */
        int lim = W > ret ? W : ret;
        for (int i = lim; i < (int)slot; i++) {
            if (gb.p[i] != before[i]) {
                viol(K12("modified-beyond-width"), "stored=%" PRIu64 " W=%d add=%" PRId64 " byte %d changed", su, W, a, i);
                break;
            }
        }
    }
done:
    g_c12_class[family * 2 + grow][oc]++;
    if (oc != OC_SAMEWIDTH) {
        STAT_INC("c12_nontrivial");
    }
    STAT_INC("c12_calls");
    gbuf_free(&gb);
    return oc;
#undef K12
}
static void c12_case(uint64_t idx, rng_t *r) {
    (void)idx;
    uint64_t su = gen_value(r);
    if (rng_chance(r, 1, 3)) { /* at a width boundary +-2 */
        su = g_bound[rng_below(r, (uint64_t)g_nbound)];
        su += rng_below(r, 5);
        su -= 2;
    }
    int64_t a = c12_amount(r, (int64_t)su);
    bool isnew = distinct_add(&g_distinct, su * 0x9E3779B97F4A7C15ULL ^ (uint64_t)a);
    int nt = 0;
    /* tagged: minimal width, or any width >= 4 that is >= minimal */
    int tmin = ref_tagged_len(su);
    int Wt = tmin;
    if (rng_chance(r, 1, 3)) {
        int lo = tmin < 4 ? 4 : tmin;
        Wt = lo + (int)rng_below(r, (uint64_t)(9 - lo + 1));
    }
    nt += c12_run(0, false, su, Wt, a, r) != OC_SAMEWIDTH;
    nt += c12_run(0, true, su, Wt, a, r) != OC_SAMEWIDTH;
    int emin = ref_bytes_needed(su);
    int We = rng_chance(r, 1, 3) ? emin + (int)rng_below(r, (uint64_t)(8 - emin + 1)) : emin;
    nt += c12_run(1, false, su, We, a, r) != OC_SAMEWIDTH;
    nt += c12_run(1, true, su, We, a, r) != OC_SAMEWIDTH;
    if (isnew && nt) {
        STAT_INC("distinct_nontrivial_triples");
    }
    if (want_sample()) {
        sample("{\"stored\":%" PRIu64 ",\"tagged_slot_width\":%d,\"external_slot_width\":%d,\"add\":%" PRId64 "}", su, Wt, We, a);
    }
}

/* ------------------------------------------------ exhaustive 32-bit entry points */
/* every 32-bit value through the entry points that take or return uint32_t; --p0 = log2 of the range (32 = all) */
static void c01_all32(void) {
    uint64_t total = 1ULL << (g_param[0] ? g_param[0] : 32);
    uint64_t lo = total / g_nshards * g_shard, hi = g_shard + 1 == g_nshards ? total : total / g_nshards * (g_shard + 1);
    uint8_t buf[16], rb[16];
    uint64_t n = 0;
    for (uint64_t x = lo; x < hi; x++) {
        uint32_t v = (uint32_t)x, o = ~v;
        g_case = x;
        int l = varintTaggedPutVarint32(buf, v);
        int rl = ref_tagged(rb, v);
        if (l != rl || memcmp(buf, rb, (size_t)rl) || varintTaggedGetVarint32(buf, &o) != l || o != v) {
            FAIL("tagged", "PutVarint32/GetVarint32", "value-mismatch", "v=%u len %d/%d decoded %u", v, l, rl, o);
            break;
        }
        l = varintChained_putVarint32(buf, v);
        rl = ref_chained(rb, v);
        uint32_t o2 = ~v, o3 = ~v;
        int g1 = (buf[0] & 0x80) ? (int)varintChainedGetVarint32(buf, &o2) : (o2 = buf[0], 1);
        int g2 = varintChained_getVarint32(buf, o3);
        if (l != rl || memcmp(buf, rb, (size_t)rl) || g1 != l || g2 != l || o2 != v || o3 != v) {
            FAIL("chained", "_putVarint32/GetVarint32", "value-mismatch", "v=%u len %d/%d decoded %u %u", v, l, rl, o2, o3);
            break;
        }
        l = varintChainedSimpleEncode32(buf, v);
        rl = ref_chained_simple(rb, v);
        o2 = o3 = ~v;
        if (l != rl || memcmp(buf, rb, (size_t)rl) || varintChainedSimpleDecode32(buf, &o2) != l || varintChainedSimpleDecode32Fallback(buf, &o3) != l || o2 != v || o3 != v) {
            FAIL("chainedSimple", "Encode32/Decode32", "value-mismatch", "v=%u len %d/%d decoded %u %u", v, l, rl, o2, o3);
            break;
        }
        n++;
    }
    stat_add("c01_exhaustive_32bit_values", n);
    stat_add("distinct_cases", n);
    finish_run(n);
}

/* ================================================================ cases */
static void scalar_case(uint64_t idx, rng_t *r) {
    uint64_t g = idx * g_nshards + g_shard;
    uint64_t E = g_param[0];
    uint64_t v = g < E ? g : gen_value(r);
    g_align = (unsigned)(g & 127);
    g_alignseen[g_align & 15]++;
    if ((g_align & 63) > 55) STAT_INC("c01_windows_straddling_a_cache_line");
    arena_newpat(r);
    if (g < E) {
        if (v >= 64) {
            STAT_INC("distinct_cases");
        }
    } else if (v >= E && v >= 64 && distinct_add(&g_distinct, v)) {
        STAT_INC("distinct_cases");
    }
    if (MODE == 1) {
        c01_value(v, r);
    } else {
        c04_value(v);
    }
    if (want_sample() && g >= E) {
        uint8_t e[9];
        int n = varintTaggedPut64(e, v);
        sample("{\"value\":%" PRIu64 ",\"align\":%u,\"tagged\":\"%s\"}", v, g_align, hexs(e, (size_t)n));
    }
}

int main(int argc, char **argv) {
    parse_args(argc, argv);
    install_handlers();
    gen_init();
    ref_split_init();
    distinct_init(&g_distinct, 21);
    digest_init(&g_dig);
    if (!strcmp(g_mode, "c01")) {
        MODE = 1, PROP = "C01";
        if (g_from == 0 && g_only < 0) {
            g_case = 0;
            c01_constant_arguments();
        }
        CASE_LOOP(scalar_case);
    } else if (!strcmp(g_mode, "c01x32")) {
        MODE = 1, PROP = "C01";
        c01_all32();
        return 0;
    } else if (!strcmp(g_mode, "c04")) {
        MODE = 4, PROP = "C04";
#if !defined(VARINT_SPLIT_FULL_USE_MAXIMUM_RANGE) && !defined(VARINT_SPLIT_FULL_NO_ZERO_USE_MAXIMUM_RANGE)
        if (g_shard == 0 && g_from == 0 && g_only < 0) {
            g_case = 0;
            c04_tables();
        }
#endif
        CASE_LOOP(scalar_case);
    } else if (!strcmp(g_mode, "c05")) {
        MODE = 5, PROP = "C05";
        CASE_LOOP(c05_case);
    } else if (!strcmp(g_mode, "c12")) {
        MODE = 12, PROP = "C12";
        CASE_LOOP(c12_case);
    } else {
        fprintf(stderr, "bad mode\n");
        return 2;
    }
    /* post-loop output (after DONE is fine: parser is order independent) */
    static const char *const famnames[NFAMS + 2] = {"tagged", "chained", "chainedSimple", "split", "splitFull", "splitFullNoZero", "splitFull16", "externalLE", "externalBE"};
    if (MODE == 1 || MODE == 4) {
        for (size_t f = 0; f < NFAMS + 2; f++) {
            for (int L = 1; L <= 9; L++) {
                if (g_lenclass[f][L]) {
                    printf("STAT lenclass.%s.%d %" PRIu64 "\n", famnames[f], L, g_lenclass[f][L]);
                }
            }
        }
        for (int a = 0; a < 16; a++) {
            printf("STAT align.%d %" PRIu64 "\n", a, g_alignseen[a]);
        }
        static const char *const fwn[3] = {"tagged", "externalLE", "externalBE"};
        for (int f = 0; f < 3; f++) {
            for (int W = 1; W <= 9; W++) {
                if (g_fixedwidth_seen[f][W]) {
                    printf("STAT fixedwidth.%s.%d %" PRIu64 "\n", fwn[f], W, g_fixedwidth_seen[f][W]);
                }
            }
        }
        digest_print("scalar", &g_dig);
    }
    if (MODE == 12) {
        static const char *const fn[4] = {"taggedNoGrow", "taggedGrow", "externalNoGrow", "externalGrow"};
        static const char *const ocn[4] = {"overflow", "refused", "samewidth", "widthchanged"};
        for (int f = 0; f < 4; f++) {
            for (int o = 0; o < 4; o++) {
                printf("STAT outcome.%s.%s %" PRIu64 "\n", fn[f], ocn[o], g_c12_class[f][o]);
            }
        }
    }
    fflush(stdout);
    return 0;
}
