/* wrap_alloc.c — link-time allocation monitor (-Wl,--wrap=malloc,calloc,realloc,free and the other
 * allocation entry points of libc: aligned_alloc, posix_memalign, memalign, valloc, pvalloc, reallocarray, strdup,
 * strndup — the library uses none of these today; they are wrapped so that a change which moves an allocation to one
 * of them stays inside the monitor and the fault injector).
 * While armed: counts allocation calls, records each live block with its call
 * site, and can make exactly the k-th allocation call return NULL. */
#include "wrap_alloc.h"
#include <stdint.h>
#include <stdio.h>
#include <string.h>

void *__real_malloc(size_t);
void *__real_calloc(size_t, size_t);
void *__real_realloc(void *, size_t);
void __real_free(void *);

#define WA_TAB (1u << 16)
typedef struct {
    void *p;
    size_t n;
    void *site;
} wa_blk;
static wa_blk wa_tab[WA_TAB];
static int wa_armed = 0;
static unsigned long wa_counter = 0;
static unsigned long wa_fail_at = 0;
static void *wa_failed_site = NULL;
static unsigned long wa_live = 0;
static size_t wa_largest = 0;
static void *wa_sites[WA_MAXSITES];
static unsigned wa_nsites = 0;

static inline unsigned wa_hash(void *p) {
    uintptr_t x = (uintptr_t)p;
    x ^= x >> 17;
    x *= 0x9E3779B97F4A7C15ULL;
    return (unsigned)(x >> 40) & (WA_TAB - 1);
}
static void wa_track(void *p, size_t n, void *site) {
    if (!p) return;
    unsigned i = wa_hash(p);
    for (unsigned k = 0; k < WA_TAB; k++, i = (i + 1) & (WA_TAB - 1)) {
        if (wa_tab[i].p == NULL || wa_tab[i].p == (void *)1) {
            wa_tab[i].p = p;
            wa_tab[i].n = n;
            wa_tab[i].site = site;
            wa_live++;
            return;
        }
    }
}
static int wa_untrack(void *p) {
    if (!p) return 0;
    unsigned i = wa_hash(p);
    for (unsigned k = 0; k < WA_TAB; k++, i = (i + 1) & (WA_TAB - 1)) {
        if (wa_tab[i].p == p) {
            wa_tab[i].p = (void *)1; /* tombstone */
            wa_live--;
            return 1;
        }
        if (wa_tab[i].p == NULL) return 0;
    }
    return 0;
}
static void wa_note_site(void *site) {
    for (unsigned i = 0; i < wa_nsites; i++)
        if (wa_sites[i] == site) return;
    if (wa_nsites < WA_MAXSITES) wa_sites[wa_nsites++] = site;
}
/* returns 1 if this call must fail */
static int wa_enter(size_t n, void *site) {
    if (!wa_armed) return 0;
    wa_counter++;
    if (n > wa_largest) wa_largest = n;
    if (wa_fail_at && wa_counter == wa_fail_at) {
        wa_failed_site = site;
        wa_note_site(site);
        return 1;
    }
    return 0;
}

void *__wrap_malloc(size_t n) {
    void *site = __builtin_return_address(0);
    if (wa_enter(n, site)) return NULL;
    void *p = __real_malloc(n);
    if (wa_armed) wa_track(p, n, site);
    return p;
}
void *__wrap_calloc(size_t a, size_t b) {
    void *site = __builtin_return_address(0);
    if (wa_enter(a * b, site)) return NULL;
    void *p = __real_calloc(a, b);
    if (wa_armed) wa_track(p, a * b, site);
    return p;
}
void *__wrap_realloc(void *old, size_t n) {
    void *site = __builtin_return_address(0);
    if (wa_enter(n, site)) return NULL; /* old block stays valid */
    int was = wa_untrack(old);
    void *p = __real_realloc(old, n);
    if (p) {
        if (wa_armed || was) wa_track(p, n, site);
    } else if (was) {
        wa_track(old, 0, site);
    }
    return p;
}
void *__real_aligned_alloc(size_t, size_t);
int __real_posix_memalign(void **, size_t, size_t);
void *__real_memalign(size_t, size_t);
void *__real_valloc(size_t);
void *__real_pvalloc(size_t);
void *__real_reallocarray(void *, size_t, size_t);
char *__real_strdup(const char *);
char *__real_strndup(const char *, size_t);
void *__wrap_aligned_alloc(size_t al, size_t n) {
    void *site = __builtin_return_address(0);
    if (wa_enter(n, site)) return NULL;
    void *p = __real_aligned_alloc(al, n);
    if (wa_armed) wa_track(p, n, site);
    return p;
}
int __wrap_posix_memalign(void **out, size_t al, size_t n) {
    void *site = __builtin_return_address(0);
    if (wa_enter(n, site)) return 12; /* ENOMEM */
    int rc = __real_posix_memalign(out, al, n);
    if (wa_armed && rc == 0) wa_track(*out, n, site);
    return rc;
}
void *__wrap_memalign(size_t al, size_t n) {
    void *site = __builtin_return_address(0);
    if (wa_enter(n, site)) return NULL;
    void *p = __real_memalign(al, n);
    if (wa_armed) wa_track(p, n, site);
    return p;
}
void *__wrap_valloc(size_t n) {
    void *site = __builtin_return_address(0);
    if (wa_enter(n, site)) return NULL;
    void *p = __real_valloc(n);
    if (wa_armed) wa_track(p, n, site);
    return p;
}
void *__wrap_pvalloc(size_t n) {
    void *site = __builtin_return_address(0);
    if (wa_enter(n, site)) return NULL;
    void *p = __real_pvalloc(n);
    if (wa_armed) wa_track(p, n, site);
    return p;
}
void *__wrap_reallocarray(void *old, size_t a, size_t b) {
    void *site = __builtin_return_address(0);
    size_t n = a * b;
    if (b && n / b != a) n = (size_t)-1;
    if (wa_enter(n, site)) return NULL;
    int was = wa_untrack(old);
    void *p = __real_reallocarray(old, a, b);
    if (p) {
        if (wa_armed || was) wa_track(p, n, site);
    } else if (was) {
        wa_track(old, 0, site);
    }
    return p;
}
char *__wrap_strdup(const char *s) {
    void *site = __builtin_return_address(0);
    size_t n = strlen(s) + 1;
    if (wa_enter(n, site)) return NULL;
    char *p = __real_strdup(s);
    if (wa_armed) wa_track(p, n, site);
    return p;
}
char *__wrap_strndup(const char *s, size_t m) {
    void *site = __builtin_return_address(0);
    size_t n = strnlen(s, m) + 1;
    if (wa_enter(n, site)) return NULL;
    char *p = __real_strndup(s, m);
    if (wa_armed) wa_track(p, n, site);
    return p;
}
void __wrap_free(void *p) {
    wa_untrack(p);
    __real_free(p);
}

void wa_arm(unsigned long fail_at) {
    wa_counter = 0;
    wa_fail_at = fail_at;
    wa_failed_site = NULL;
    wa_largest = 0;
    wa_armed = 1;
}
unsigned long wa_disarm(void) {
    wa_armed = 0;
    return wa_counter;
}
void wa_pause(void) { wa_armed = 0; }
void wa_resume(void) { wa_armed = 1; }
unsigned long wa_live_blocks(void) { return wa_live; }
void *wa_last_failed_site(void) { return wa_failed_site; }
size_t wa_largest_request(void) { return wa_largest; }
void wa_forget_all(void) {
    memset(wa_tab, 0, sizeof wa_tab);
    wa_live = 0;
}
/* describe up to `max` live blocks into buf */
void wa_describe_live(char *buf, size_t len, int max) {
    size_t k = 0;
    buf[0] = 0;
    for (unsigned i = 0; i < WA_TAB && max > 0; i++) {
        if (wa_tab[i].p && wa_tab[i].p != (void *)1) {
            int w = snprintf(buf + k, len - k, "[%zu bytes from site %p] ", wa_tab[i].n, wa_tab[i].site);
            if (w < 0 || (size_t)w >= len - k) break;
            k += (size_t)w;
            max--;
        }
    }
}
unsigned wa_failed_sites(void **out) {
    for (unsigned i = 0; i < wa_nsites; i++) out[i] = wa_sites[i];
    return wa_nsites;
}
