/* ref_scalar.h — reference encoders written from the format descriptions
 * only (comments in varintTagged.c, varintChained.c, the split headers, the
 * README tables).  They share no code, macros or constants with the library.
 * Every function writes the canonical encoding of v into out[] (at most 9
 * bytes) and returns its length. */
#ifndef VERIF_REF_SCALAR_H
#define VERIF_REF_SCALAR_H
#include <stdint.h>

static inline int ref_bytes_needed(uint64_t v) {
    int n = 1;
    while (v >>= 8) {
        n++;
    }
    return n;
}
static inline void ref_be(uint8_t *out, uint64_t v, int n) {
    for (int i = 0; i < n; i++) {
        out[i] = (uint8_t)(v >> (8 * (n - 1 - i)));
    }
}
static inline void ref_le(uint8_t *out, uint64_t v, int n) {
    for (int i = 0; i < n; i++) {
        out[i] = (uint8_t)(v >> (8 * i));
    }
}

/* sqlite4 varint: first byte 0-240 literal; 241-248: 240+256*(A0-241)+A1;
 * 249: 2288+256*A1+A2; 250..255: A1.. as 3..8 byte big-endian integer */
static int ref_tagged(uint8_t *out, uint64_t v) {
    if (v <= 240) {
        out[0] = (uint8_t)v;
        return 1;
    }
    if (v <= 2287) {
        out[0] = (uint8_t)((v - 240) / 256 + 241);
        out[1] = (uint8_t)((v - 240) % 256);
        return 2;
    }
    if (v <= 67823) {
        out[0] = 249;
        out[1] = (uint8_t)((v - 2288) / 256);
        out[2] = (uint8_t)((v - 2288) % 256);
        return 3;
    }
    int n = ref_bytes_needed(v);
    if (n < 3) {
        n = 3;
    }
    out[0] = (uint8_t)(247 + n); /* 3 bytes -> 250 ... 8 bytes -> 255 */
    ref_be(out + 1, v, n);
    return n + 1;
}
static int ref_tagged_len(uint64_t v) {
    uint8_t t[9];
    return ref_tagged(t, v);
}

/* sqlite3 varint: big-endian 7-bit groups, high bit = "more"; if nine bytes
 * are needed the ninth carries 8 bits */
static int ref_chained(uint8_t *out, uint64_t v) {
    if (v >> 56) {
        out[8] = (uint8_t)v;
        v >>= 8;
        for (int i = 7; i >= 0; i--) {
            out[i] = (uint8_t)((v & 0x7f) | 0x80);
            v >>= 7;
        }
        return 9;
    }
    int n = 1;
    for (uint64_t t = v >> 7; t; t >>= 7) {
        n++;
    }
    for (int i = n - 1; i >= 0; i--) {
        out[i] = (uint8_t)((v & 0x7f) | (i == n - 1 ? 0 : 0x80));
        v >>= 7;
    }
    return n;
}

/* LEB128 little-endian base-128, capped at nine bytes (ninth byte = 8 bits) */
static int ref_chained_simple(uint8_t *out, uint64_t v) {
    int n = 0;
    while (n < 8) {
        if (v < 0x80) {
            out[n++] = (uint8_t)v;
            return n;
        }
        out[n++] = (uint8_t)((v & 0x7f) | 0x80);
        v >>= 7;
    }
    out[n++] = (uint8_t)v; /* remaining 8 bits */
    return n;
}

static int ref_external_le(uint8_t *out, uint64_t v) {
    int n = ref_bytes_needed(v);
    ref_le(out, v, n);
    return n;
}
static int ref_external_be(uint8_t *out, uint64_t v) {
    int n = ref_bytes_needed(v);
    ref_be(out, v, n);
    return n;
}

/* Split-style layouts.
 *   embedded level i (i = 0..nemb-1): type byte = (i << 6) | top 6 bits of the
 *   stored value, followed by embbytes[i] big-endian low bytes; the stored value
 *   is v - base[i] where base[i] is the documented previous-level maximum.
 *   VAR level: type byte = (nemb << 6) | width, then (v - lastmax) as `width`
 *   little-endian bytes; width is minimal but at least minvar. */
typedef struct {
    int nemb;
    int embbytes[3];    /* extra bytes after the type byte */
    uint64_t base[3];   /* subtracted before storing */
    uint64_t max[3];    /* largest v of that level */
    int minvar;
} ref_split_cfg;

static void ref_split_cfg_make(ref_split_cfg *c, int nemb, const int *embbytes, uint64_t firstbase,
                               uint64_t firstmax_adjust, int minvar) {
    /* level i holds 6 + 8*embbytes[i] payload bits: stored value range
     * 0 .. 2^bits-1, value = stored + base. */
    c->nemb = nemb;
    c->minvar = minvar;
    uint64_t base = firstbase;
    for (int i = 0; i < nemb; i++) {
        int bits = 6 + 8 * embbytes[i];
        c->embbytes[i] = embbytes[i];
        c->base[i] = base;
        c->max[i] = base + ((1ULL << bits) - 1) + (i == 0 ? firstmax_adjust : 0);
        base = c->max[i];
    }
}
static int ref_split_encode(const ref_split_cfg *c, uint8_t *out, uint64_t v) {
    for (int i = 0; i < c->nemb; i++) {
        if (v <= c->max[i]) {
            uint64_t s = v - c->base[i];
            int eb = c->embbytes[i];
            out[0] = (uint8_t)((i << 6) | (s >> (8 * eb)));
            ref_be(out + 1, s & ((eb ? (1ULL << (8 * eb)) : 1) - 1), eb);
            return 1 + eb;
        }
    }
    uint64_t s = v - c->max[c->nemb - 1];
    int w = ref_bytes_needed(s);
    if (w < c->minvar) {
        w = c->minvar;
    }
    out[0] = (uint8_t)((c->nemb << 6) | w);
    ref_le(out + 1, s, w);
    return 1 + w;
}

static ref_split_cfg REF_SPLIT, REF_SPLITFULL, REF_SPLITNZ, REF_SPLIT16;
static void ref_split_init(void) {
    /* split: 00 = 6 bits, 01 = 14 bits (+63), 10 = external (+16446), min 1 byte */
    ref_split_cfg_make(&REF_SPLIT, 2, (const int[]){0, 1}, 0, 0, 1);
    /* split-full: 6 / 14 / 22 bits, 11 = external (+4210749), at least 2 bytes
     * ("never shrink" rule) */
#ifdef VARINT_SPLIT_FULL_USE_MAXIMUM_RANGE
    /* documented knob: the 2-byte external form is used too (grow-shrink-grow allowed) */
    ref_split_cfg_make(&REF_SPLITFULL, 3, (const int[]){0, 1, 2}, 0, 0, 1);
#else
    ref_split_cfg_make(&REF_SPLITFULL, 3, (const int[]){0, 1, 2}, 0, 0, 2);
#endif
    /* split-full-no-zero: first level stores v-1 (1..64), then as split-full */
#ifdef VARINT_SPLIT_FULL_NO_ZERO_USE_MAXIMUM_RANGE
    ref_split_cfg_make(&REF_SPLITNZ, 3, (const int[]){0, 1, 2}, 1, 0, 1);
#else
    ref_split_cfg_make(&REF_SPLITNZ, 3, (const int[]){0, 1, 2}, 1, 0, 2);
#endif
    /* split-full-16: 14 / 22 / 30 bits, external at least 4 bytes */
    ref_split_cfg_make(&REF_SPLIT16, 3, (const int[]){1, 2, 3}, 0, 0, 4);
}
static int ref_split(uint8_t *o, uint64_t v) { return ref_split_encode(&REF_SPLIT, o, v); }
static int ref_splitfull(uint8_t *o, uint64_t v) { return ref_split_encode(&REF_SPLITFULL, o, v); }
static int ref_splitnz(uint8_t *o, uint64_t v) { return ref_split_encode(&REF_SPLITNZ, o, v); }
static int ref_split16(uint8_t *o, uint64_t v) { return ref_split_encode(&REF_SPLIT16, o, v); }

/* reference tagged-varint reader (format: see ref_scalar.h) */
static int ref_tagged_read(const uint8_t *p, uint64_t *v) {
    if (p[0] <= 240) { *v = p[0]; return 1; }
    if (p[0] <= 248) { *v = 240 + 256 * (uint64_t)(p[0] - 241) + p[1]; return 2; }
    if (p[0] == 249) { *v = 2288 + 256 * (uint64_t)p[1] + p[2]; return 3; }
    int nb = p[0] - 247;
    uint64_t x = 0;
    for (int i = 0; i < nb; i++) x = (x << 8) | p[1 + i];
    *v = x;
    return 1 + nb;
}

/* zig-zag: 0,-1,1,-2,2,... -> 0,1,2,3,4 */
static inline uint64_t ref_zigzag(int64_t n) {
    return n >= 0 ? 2 * (uint64_t)n : 2 * (uint64_t)(-(n + 1)) + 1;
}
static inline int64_t ref_unzigzag(uint64_t z) {
    return (z & 1) ? -(int64_t)(z >> 1) - 1 : (int64_t)(z >> 1);
}

/* Elias gamma of v>=1: N = floor(log2 v) zero bits, then the N+1 bits of v,
 * most significant first.  Elias delta: gamma(N+1) then the N low bits of v.
 * Bits are emitted into a string of '0'/'1' for comparison. */
static int ref_gamma_bits(char *o, uint64_t v) {
    int N = 63 - __builtin_clzll(v), k = 0;
    for (int i = 0; i < N; i++) {
        o[k++] = '0';
    }
    for (int i = N; i >= 0; i--) {
        o[k++] = ((v >> i) & 1) ? '1' : '0';
    }
    o[k] = 0;
    return k;
}
static int ref_delta_bits(char *o, uint64_t v) {
    int N = 63 - __builtin_clzll(v);
    int k = ref_gamma_bits(o, (uint64_t)N + 1);
    for (int i = N - 1; i >= 0; i--) {
        o[k++] = ((v >> i) & 1) ? '1' : '0';
    }
    o[k] = 0;
    return k;
}
#endif
