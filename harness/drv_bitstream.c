/* drv_bitstream.c — C11: bitstream writes are exact and isolated.
 * Compiled twice: default uint64_t words, and -DVBITS=uint32_t -DVBITSVAL=uint32_t
 * (the two documented word types).  case g -> (offset mod W, width) = g % (W*W). */
#include "common.h"
#include "gen.h"
#include "varintBitstream.h"
#include <sys/mman.h>

#define W ((int)(sizeof(vbits) * 8))
static uint64_t g_oneword, g_twoword, g_fullwidth_unaligned;

#define BFAIL(entry, cls, ...)                                                                                         \
    do {                                                                                                               \
        char _k[200];                                                                                                  \
        if (sizeof(vbitsVal) == sizeof(vbits) || sizeof(vbits) == 8)                                                   \
            snprintf(_k, sizeof _k, "C11:%s/%d-bit-words:%s", entry, W, cls);                                          \
        else                                                                                                           \
            snprintf(_k, sizeof _k, "C11:%s/%d-bit-words+%d-bit-values:%s", entry, W, (int)sizeof(vbitsVal) * 8, cls); \
        viol(_k, __VA_ARGS__);                                                                                         \
    } while (0)

/* documented layout: MSB first within a word */
static inline int mbit(const vbits *s, size_t p) { return (int)((s[p / (size_t)W] >> ((size_t)W - 1 - p % (size_t)W)) & 1); }
static inline void msetbit(vbits *s, size_t p, int b) {
    vbits m = (vbits)1 << ((size_t)W - 1 - p % (size_t)W);
    s[p / (size_t)W] = b ? (s[p / (size_t)W] | m) : (s[p / (size_t)W] & ~m);
}
static uint64_t gen_bsvalue(rng_t *r, int width) {
    uint64_t m = width == 64 ? UINT64_MAX : ((1ULL << width) - 1);
    switch (rng_below(r, 6)) {
    case 0: return 0;
    case 1: return m;
    case 2: return 1ULL << rng_below(r, (uint64_t)width);
    case 3: return m ^ (1ULL << rng_below(r, (uint64_t)width));
    default: return rng_next(r) & m;
    }
}

/* call sites whose width is a compile-time constant (flagsSetBool-style uses): the compiler may specialise the inlined
 * Set/Get for each literal */
#define LITWIDTHS(X) X(1) X(2) X(3) X(4) X(5) X(6) X(7) X(8) X(9) X(10) X(11) X(12) X(13) X(14) X(15) X(16) X(17) X(18) X(19) X(20) X(21) X(22) \
    X(23) X(24) X(25) X(26) X(27) X(28) X(29) X(30) X(31) X(32) X(33) X(34) X(35) X(36) X(37) X(38) X(39) X(40) X(41) X(42) X(43) X(44) X(45) X(46) \
    X(47) X(48) X(49) X(50) X(51) X(52) X(53) X(54) X(55) X(56) X(57) X(58) X(59) X(60) X(61) X(62) X(63) X(64)
static void set_literal_width(vbits *s, size_t off, int width, vbitsVal v) {
    switch (width) {
#define X(n) case n: if (n <= W) varintBitstreamSet(s, off, n, v); break;
        LITWIDTHS(X)
#undef X
    default: break;
    }
}
static vbitsVal get_literal_width(const vbits *s, size_t off, int width) {
    switch (width) {
#define X(n) case n: return n <= W ? varintBitstreamGet(s, off, n) : 0;
        LITWIDTHS(X)
#undef X
    default: return 0;
    }
}
static void pair_case(uint64_t idx, rng_t *r) {
    uint64_t g = idx * g_nshards + g_shard;
    int offmod = (int)(g % (uint64_t)W);
    int width = 1 + (int)((g / (uint64_t)W) % (uint64_t)W);
    static const size_t wordpos[3] = {0, 1, 5};
    int reps = g_param[0] ? (int)g_param[0] : 8;
    bool two = offmod + width > W;
    for (int wp = 0; wp < 3; wp++) {
        size_t off = wordpos[wp] * (size_t)W + (size_t)offmod;
        size_t lastword = (off + (size_t)width - 1) / (size_t)W;
        size_t nwords = lastword + 1; /* the stream ends at the last overlapped word */
        for (int k = 0; k < reps; k++) {
            gbuf_t gb;
            gbuf_alloc(&gb, nwords * sizeof(vbits), 64, (uint8_t)(g + (uint64_t)k));
            vbits *s = (vbits *)gb.p;
            rng_fill(r, s, nwords * sizeof(vbits));
            if (k == 0) memset(s, 0, nwords * sizeof(vbits));
            if (k == 1) memset(s, 0xff, nwords * sizeof(vbits));
            vbits *expect = malloc(nwords * sizeof(vbits));
            memcpy(expect, s, nwords * sizeof(vbits));
            uint64_t v = gen_bsvalue(r, width);
            for (int b = 0; b < width; b++) msetbit(expect, off + (size_t)b, (int)((v >> (width - 1 - b)) & 1));
            g_ctx = "varintBitstreamGet";
            /* read-modify-write-verify in one function: a reader that is wrongly declared free of memory
             * reads would have its second call folded into the first */
            uint64_t prev = (uint64_t)varintBitstreamGet(s, off, (size_t)width);
            uint64_t prevwant = 0;
            for (int b = 0; b < width; b++) prevwant = (prevwant << 1) | (uint64_t)mbit(s, off + (size_t)b);
            g_ctx = "varintBitstreamSet";
            snprintf(g_sub, sizeof g_sub, "offset=%zu width=%d value=%" PRIu64, off, width, v);
            if (k & 1) {
                set_literal_width(s, off, width, (vbitsVal)v);
                STAT_INC("c11_writes_with_literal_width");
            } else {
                varintBitstreamSet(s, off, (size_t)width, (vbitsVal)v);
            }
            g_ctx = "varintBitstreamGet";
            uint64_t back = (uint64_t)((k & 2) ? get_literal_width(s, off, width) : varintBitstreamGet(s, off, (size_t)width));
            if (prev != prevwant) {
                BFAIL("varintBitstreamGet", "read-differs-from-documented-layout", "offset %zu width %d read %" PRIu64 " stream holds %" PRIu64, off, width, prev, prevwant);
                free(expect);
                gbuf_free(&gb);
                return;
            }
            g_sub[0] = 0;
            bool bad = false;
            if (back != v) {
                BFAIL("varintBitstreamSet", "read-back-differs-from-written", "offset %zu (mod %d) width %d wrote %" PRIu64 " read %" PRIu64, off, offmod, width, v, back);
                bad = true;
            } else if (memcmp(expect, s, nwords * sizeof(vbits))) {
                size_t p = 0;
                while (p < nwords * (size_t)W && mbit(expect, p) == mbit(s, p)) p++;
                BFAIL("varintBitstreamSet", "changed-bits-outside-range", "offset %zu (mod %d) width %d value %" PRIu64 ": stream bit %zu changed (range is %zu..%zu)", off, offmod, width, v, p, off, off + (size_t)width - 1);
                bad = true;
            } else if (gbuf_check(&gb) != -1) {
                BFAIL("varintBitstreamSet", "wrote-outside-overlapped-words", "offset %zu width %d", off, width);
                bad = true;
            }
            /* reads of every other aligned field of the same width are unaffected: implied by the bit comparison */
            free(expect);
            gbuf_free(&gb);
            if (two) g_twoword++;
            else g_oneword++;
            if (width == W && offmod) g_fullwidth_unaligned++;
            STAT_INC("c11_writes");
            if (bad) return;
        }
    }
    /* signed helpers: every |x| <= 2^(width-1)-1 representable in the width */
    if (width >= 2) {
        uint64_t mag = (width == 64 ? (uint64_t)INT64_MAX : ((1ULL << (width - 1)) - 1));
        for (int k = 0; k < 4; k++) {
            int64_t x = (int64_t)(k == 0 ? mag : k == 1 ? 1 : rng_next(r) % (mag + 1));
            if (k != 3 || rng_chance(r, 1, 2)) x = -x;
            vbits words[4] = {0, 0, 0, 0};
            int64_t val = x;
            g_ctx = "_varintBitstreamPrepareSigned";
            if (val < 0)
                _varintBitstreamPrepareSigned(val, width);
            else
                val += 0;
            uint64_t stored = (uint64_t)val & (width == 64 ? UINT64_MAX : ((1ULL << width) - 1));
            if (stored != (uint64_t)val) {
                BFAIL("_varintBitstreamPrepareSigned", "prepared-value-does-not-fit-width", "x=%" PRId64 " width %d prepared %" PRIx64, x, width, (uint64_t)val);
                return;
            }
            varintBitstreamSet(words, (size_t)offmod, (size_t)width, (vbitsVal)stored);
            int64_t res = (int64_t)varintBitstreamGet(words, (size_t)offmod, (size_t)width);
            g_ctx = "_varintBitstreamRestoreSigned";
            if (k & 1) {
                _varintBitstreamRestoreSigned(res, width);
            } else {
                /* the macros as the sole, un-braced statement of an if/else (they are documented as statements) */
                int64_t other = 0;
                if (x != 0)
                    _varintBitstreamRestoreSigned(res, width);
                else
                    other = 1;
                if (other != (x == 0)) {
                    BFAIL("_varintBitstreamRestoreSigned", "macro-is-not-one-statement", "x=%" PRId64 " width %d: the else branch of the caller ran for a non-zero value", x, width);
                    return;
                }
                if (x == 0) _varintBitstreamRestoreSigned(res, width);
            }
            if (res != x) {
                BFAIL("_varintBitstreamRestoreSigned", "signed-value-not-restored", "x=%" PRId64 " width %d restored %" PRId64, x, width, res);
                return;
            }
            STAT_INC("c11_signed_roundtrips");
        }
    }
    /* the signed helpers with narrower signed holder types at their own full width (and below it) */
    if (width == 32 || width == 16 || width == 8 || width == 31 || width == 15 || width == 7) {
#define NARROW_SIGNED(T, TBITS)                                                                                        \
        if (width <= TBITS && width >= TBITS - 1) {                                                                    \
            T mag = (T)(((uint64_t)1 << (width - 1)) - 1);                                                             \
            for (int k = 0; k < 4; k++) {                                                                              \
                T x = (T)(k == 0 ? mag : k == 1 ? 1 : (T)(rng_next(r) % ((uint64_t)mag + 1)));                          \
                if (k != 3) x = (T)-x;                                                                                 \
                T val = x;                                                                                             \
                if (val < 0)                                                                                           \
                    _varintBitstreamPrepareSigned(val, width);                                                         \
                uint64_t stored = (uint64_t)val & (((uint64_t)1 << width) - 1);                                        \
                T res = (T)stored;                                                                                     \
                g_ctx = "_varintBitstreamRestoreSigned";                                                               \
                _varintBitstreamRestoreSigned(res, width);                                                             \
                if (res != x) {                                                                                        \
                    BFAIL("_varintBitstreamRestoreSigned", "signed-value-not-restored", #T " x=%" PRId64 " width %d restored %" PRId64, (int64_t)x, width, (int64_t)res); \
                    return;                                                                                            \
                }                                                                                                      \
                STAT_INC("c11_signed_roundtrips_narrow_holder");                                                       \
            }                                                                                                          \
        }
        NARROW_SIGNED(int32_t, 32)
        NARROW_SIGNED(int16_t, 16)
        NARROW_SIGNED(int8_t, 8)
#undef NARROW_SIGNED
    }
    /* the documented usage pattern: a run of mixed-width appends, read back at the end */
    if ((g % 64) == 0) {
        enum { NF = 1000 };
        static uint64_t vals[NF];
        static uint8_t widths[NF];
        size_t total = 0;
        for (int i = 0; i < NF; i++) {
            widths[i] = (uint8_t)(1 + rng_below(r, (uint64_t)W));
            vals[i] = gen_bsvalue(r, widths[i]);
            total += widths[i];
        }
        size_t nwords = (total + (size_t)W - 1) / (size_t)W;
        gbuf_t gb;
        gbuf_alloc(&gb, nwords * sizeof(vbits), 64, 0x42);
        vbits *s = (vbits *)gb.p;
        rng_fill(r, s, nwords * sizeof(vbits));
        size_t off = 0;
        g_ctx = "varintBitstreamSet";
        for (int i = 0; i < NF; i++) {
            varintBitstreamSet(s, off, widths[i], (vbitsVal)vals[i]);
            off += widths[i];
        }
        off = 0;
        g_ctx = "varintBitstreamGet";
        for (int i = 0; i < NF; i++) {
            uint64_t b = (uint64_t)varintBitstreamGet(s, off, widths[i]);
            if (b != vals[i]) {
                BFAIL("varintBitstreamSet", "appended-field-differs-on-read-back", "field %d width %d offset %zu wrote %" PRIu64 " read %" PRIu64, i, widths[i], off, vals[i], b);
                break;
            }
            off += widths[i];
        }
        if (gbuf_check(&gb) != -1) BFAIL("varintBitstreamSet", "wrote-outside-overlapped-words", "append sequence");
        gbuf_free(&gb);
        STAT_INC("c11_append_sequences");
    }
    /* streams larger than 2^31 / 2^32 / 2^33 bits (size_t offsets): lazily mapped, only a few pages are touched */
    if (g_param[1] && (g % g_param[1]) == 3) {
        size_t words = ((size_t)1 << 34) / (size_t)W + 4096;
        size_t bytes = words * sizeof(vbits);
        vbits *big = mmap(NULL, bytes, PROT_READ | PROT_WRITE, MAP_PRIVATE | MAP_ANONYMOUS | MAP_NORESERVE, -1, 0);
        if (big == MAP_FAILED) {
            STAT_INC("c11_huge_stream_skipped_mmap_failed");
        } else {
            static const uint64_t bases[] = {1ULL << 31, 1ULL << 32, (1ULL << 32) + (1ULL << 31), 1ULL << 33, (1ULL << 31) - 4096, (1ULL << 34) - 8192};
            for (size_t bi = 0; bi < sizeof bases / sizeof bases[0]; bi++) {
                size_t far = (size_t)bases[bi] + (size_t)offmod + (size_t)W * (size_t)(g % 50);
                /* where a 31- or 32-bit truncation of the offset would land */
                size_t alias[2] = {far & 0x7fffffffULL, far & 0xffffffffULL};
                uint64_t v = gen_bsvalue(r, width) | 1;
                v &= width == 64 ? UINT64_MAX : ((1ULL << width) - 1);
                /* the two words around the field, before */
                size_t w0 = far / (size_t)W;
                vbits around[4] = {big[w0 ? w0 - 1 : 0], big[w0], big[w0 + 1], big[w0 + 2]};
                vbits expect[4];
                memcpy(expect, around, sizeof expect);
                for (int b = 0; b < width; b++) {
                    size_t p = far + (size_t)b - (w0 ? w0 - 1 : 0) * (size_t)W;
                    msetbit(expect, p, (int)((v >> (width - 1 - b)) & 1));
                }
                g_ctx = "varintBitstreamSet";
                snprintf(g_sub, sizeof g_sub, "huge stream offset=%zu width=%d", far, width);
                varintBitstreamSet(big, far, (size_t)width, (vbitsVal)v);
                uint64_t back = (uint64_t)varintBitstreamGet(big, far, (size_t)width);
                uint64_t stored = 0;
                for (int b = 0; b < width; b++) stored = (stored << 1) | (uint64_t)mbit(big, far + (size_t)b);
                vbits after[4] = {big[w0 ? w0 - 1 : 0], big[w0], big[w0 + 1], big[w0 + 2]};
                if (back != v || stored != v) BFAIL("varintBitstreamSet", "read-back-differs-from-written", "offset %zu (>= 2^31) width %d wrote %" PRIu64 " read %" PRIu64 " stored %" PRIu64, far, width, v, back, stored);
                else if (w0 && memcmp(after, expect, sizeof after)) BFAIL("varintBitstreamSet", "changed-bits-outside-range", "write at offset %zu (>= 2^31) width %d changed neighbouring bits", far, width);
                for (int ai = 0; ai < 2; ai++) {
                    if (alias[ai] + 200 < far) {
                        uint64_t low = (uint64_t)varintBitstreamGet(big, alias[ai], (size_t)width);
                        if (low != 0) {
                            BFAIL("varintBitstreamSet", "changed-bits-outside-range", "write at offset %zu changed the field at offset %zu", far, alias[ai]);
                            varintBitstreamSet(big, alias[ai], (size_t)width, 0);
                        }
                    }
                }
                /* clear again so that later aliases read zero */
                varintBitstreamSet(big, far, (size_t)width, 0);
                if (far % (size_t)W + (size_t)width > (size_t)W) STAT_INC("c11_huge_stream_writes_spanning_two_words");
                STAT_INC("c11_huge_stream_writes");
            }
            munmap(big, bytes);
        }
        g_sub[0] = 0;
    }
    STAT_INC("distinct_nontrivial");
    if (want_sample()) sample("{\"word_bits\":%d,\"offset_mod_word\":%d,\"width\":%d,\"spans_two_words\":%d}", W, offmod, width, two);
}

int main(int argc, char **argv) {
    parse_args(argc, argv);
    install_handlers();
    gen_init();
    CASE_LOOP(pair_case);
    printf("STAT c11_oneword_writes %" PRIu64 "\nSTAT c11_twoword_writes %" PRIu64 "\nSTAT c11_fullwidth_unaligned %" PRIu64 "\n", g_oneword, g_twoword, g_fullwidth_unaligned);
    printf("MAX word_bits %d\n", W);
    fflush(stdout);
    return 0;
}
