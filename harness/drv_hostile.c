/* drv_hostile.c — C14: length-taking decoders stay inside their declared input.
 * Every input is an exact-size heap copy of exactly the declared number of bytes (ASan
 * aborts on any read at or beyond it); each case runs under alarm() (termination) and
 * under the allocation monitor (no request larger than max(16 MiB, 64*L)). */
#include "codecs.h"
#include "wrap_alloc.h"

enum { EP_TAGGED, EP_DICT, EP_DICTINTO, EP_GAMMA, EP_EDELTA, EP_BITMAP, EP_RLECOUNT, EP_N };
static const char *const EPN[EP_N] = {"varintTaggedGet", "varintDictDecode", "varintDictDecodeInto", "varintEliasGammaDecodeArray", "varintEliasDeltaDecodeArray", "varintBitmapDecode", "varintRLEGetRunCount"};
static uint64_t g_acc[EP_N], g_rej[EP_N], g_kind[EP_N][5];
static const char *const KN[5] = {"valid", "truncation", "mutation", "random", "hostile-header"};

#define HFAIL(ep, cls, ...)                                                                                            \
    do {                                                                                                               \
        char _k[200];                                                                                                  \
        snprintf(_k, sizeof _k, "C14:%s:%s", EPN[ep], cls);                                                            \
        viol(_k, __VA_ARGS__);                                                                                         \
    } while (0)

typedef struct {
    uint8_t *b;      /* bytes (scratch, not exact) */
    size_t n;        /* declared byte length */
    size_t bits;     /* Elias: declared bit length */
    uint64_t *vals;  /* original values if this derives from a valid encoding */
    size_t nvals;
    int kind;
    bool intact;     /* complete valid encoding */
    size_t valid_prefix_vals; /* Elias truncation: number of whole codes inside the declared bits */
} hin_t;

static void check_alloc(int ep, size_t L) {
    size_t lim = 64 * L > (16u << 20) ? 64 * L : (16u << 20);
    if (wa_largest_request() > lim) HFAIL(ep, "oversized-allocation-request", "declared input %zu bytes, single allocation request of %zu bytes", L, wa_largest_request());
}

/* build a valid encoding for entry point ep */
static void make_valid(int ep, rng_t *r, hin_t *h) {
    size_t n = 1 + rng_below(r, rng_chance(r, 1, 4) ? 300 : 24);
    bool bigdict = (ep == EP_DICT || ep == EP_DICTINTO) && rng_chance(r, 1, 150);
    if (bigdict) n = 65537 + rng_below(r, 3000); /* 3-byte indices */
    else if ((ep == EP_DICT || ep == EP_DICTINTO) && rng_chance(r, 1, 10)) n = 257 + rng_below(r, 600); /* 2-byte indices */
    h->vals = malloc((n + 1) * 8);
    h->nvals = n;
    int model = (int)rng_below(r, AM_NMODELS);
    if (n > 256 && (ep == EP_DICT || ep == EP_DICTINTO)) model = AM_UNIQUE9;
    gen_array_model(r, model, h->vals, n, 64);
    if (bigdict) STAT_INC("c14_dictionaries_over_65536_entries");
    h->b = malloc(scratch_size(n) + 70000);
    h->bits = 0;
    h->intact = true;
    h->kind = 0;
    switch (ep) {
    case EP_TAGGED:
        h->n = varintTaggedPut64(h->b, h->vals[0]);
        h->nvals = 1;
        break;
    case EP_DICT:
    case EP_DICTINTO:
        h->n = varintDictEncode(h->b, h->vals, n);
        break;
    case EP_GAMMA:
    case EP_EDELTA: {
        for (size_t i = 0; i < n; i++) {
            if (!h->vals[i]) h->vals[i] = 1;
            if (rng_chance(r, 2, 3)) h->vals[i] = 1 + (h->vals[i] & 0xfff); /* keep many codes short */
        }
        varintEliasMeta m;
        h->n = ep == EP_GAMMA ? varintEliasGammaEncodeArray(h->b, h->vals, n, &m) : varintEliasDeltaEncodeArray(h->b, h->vals, n, &m);
        h->bits = m.totalBits;
        break;
    }
    case EP_BITMAP: {
        varintBitmap *vb = varintBitmapCreate();
        switch (rng_below(r, 3)) {
        case 0: for (size_t i = 0; i < n; i++) varintBitmapAdd(vb, (uint16_t)h->vals[i]); break;                                  /* array */
        case 1: varintBitmapAddRange(vb, (uint16_t)rng_below(r, 1000), (uint16_t)(6000 + rng_below(r, 50000))); break;          /* runs */
        default: for (uint32_t i = 0; i < 4200; i++) varintBitmapAdd(vb, (uint16_t)(i * 13 + rng_below(r, 7))); break;           /* bitmap */
        }
        h->n = varintBitmapEncode(vb, h->b);
        h->nvals = varintBitmapCardinality(vb);
        varintBitmapFree(vb);
        break;
    }
    default: {
        gen_array_model(r, AM_RUNS, h->vals, n, 64);
        h->n = varintRLEEncode(h->b, h->vals, n, NULL);
        break;
    }
    }
}

static void derive(int ep, rng_t *r, hin_t *h, int kind, size_t cut) {
    h->kind = kind;
    switch (kind) {
    case 1: /* truncation at `cut` (bytes; bits for Elias) */
        if (ep == EP_GAMMA || ep == EP_EDELTA) {
            /* count whole codes that fit */
            size_t used = 0, k = 0;
            while (k < h->nvals) {
                size_t cl = ep == EP_GAMMA ? varintEliasGammaBits(h->vals[k]) : varintEliasDeltaBits(h->vals[k]);
                if (used + cl > cut) break;
                used += cl;
                k++;
            }
            h->valid_prefix_vals = k;
            h->bits = cut;
            h->n = (cut + 7) / 8;
        } else {
            h->n = cut;
        }
        h->intact = false;
        break;
    case 2: { /* mutation */
        int nm = 1 + (int)rng_below(r, 3);
        for (int i = 0; i < nm && h->n; i++) {
            size_t p = rng_below(r, h->n < 12 || rng_chance(r, 1, 2) ? h->n : 12);
            if (rng_chance(r, 1, 2)) h->b[p] ^= (uint8_t)(1u << rng_below(r, 8));
            else h->b[p] = rng_chance(r, 1, 2) ? 0xff : (uint8_t)rng_next(r);
        }
        h->intact = false;
        break;
    }
    default:
        break;
    }
}

static void make_random(rng_t *r, hin_t *h, int ep) {
    size_t n = rng_chance(r, 1, 10) ? rng_below(r, 4097) : rng_below(r, 65);
    h->b = malloc(n + 16);
    rng_fill(r, h->b, n);
    if (n && rng_chance(r, 1, 2)) h->b[0] = (uint8_t)(rng_chance(r, 1, 2) ? 241 + rng_below(r, 15) : rng_below(r, 6));
    h->n = n;
    h->bits = n * 8;
    if ((ep == EP_GAMMA || ep == EP_EDELTA) && n) h->bits -= rng_below(r, 8);
    if ((ep == EP_GAMMA || ep == EP_EDELTA) && rng_chance(r, 1, 3)) memset(h->b, 0, n); /* long zero prefixes */
    h->vals = NULL;
    h->nvals = 0;
    h->kind = 3;
    h->intact = false;
}

static size_t put_tagged(uint8_t *p, uint64_t v) { return varintTaggedPut64(p, v); }
static void make_hostile_header(rng_t *r, hin_t *h, int ep) {
    h->b = calloc(1, 9000);
    h->vals = NULL;
    h->nvals = 0;
    h->kind = 4;
    h->intact = false;
    size_t n = 0;
    static const uint64_t huge[] = {1ULL << 61, (1ULL << 61) + 1, 1ULL << 62, 1ULL << 63, UINT64_MAX, UINT64_MAX / 8 + 1, UINT64_MAX / 3 + 1, (1ULL << 32), (1ULL << 20), (1ULL << 20) + 1, 0x2000000000000001ULL};
    switch (ep) {
    case EP_DICT:
    case EP_DICTINTO: {
        if (rng_chance(r, 1, 2)) {
            /* a well-formed dictionary with multi-byte indices whose count field is replaced by a value
             * chosen so that count * indexWidth wraps to something that fits the remaining bytes */
            size_t u = rng_chance(r, 1, 30) ? 65537 + rng_below(r, 50) : 257 + rng_below(r, 300);
            size_t nv = u + rng_below(r, 40);
            uint64_t *vals = malloc(nv * 8);
            for (size_t i = 0; i < nv; i++) vals[i] = (i < u ? i : rng_below(r, u)) * 3 + 5;
            free(h->b);
            h->b = malloc(scratch_size(nv) + 64);
            size_t full = varintDictEncode(h->b, vals, nv);
            free(vals);
            /* locate the count varint: [dictSize][entries...][count][indices] */
            uint64_t ds, tmp;
            size_t off = (size_t)ref_tagged_read(h->b, &ds);
            for (uint64_t i = 0; i < ds; i++) off += (size_t)ref_tagged_read(h->b + off, &tmp);
            size_t cl = (size_t)ref_tagged_read(h->b + off, &tmp);
            size_t idxbytes = full - off - cl;
            unsigned w = (unsigned)ref_bytes_needed(ds - 1);
            /* count with count*w == m (mod 2^64), m <= idxbytes */
            uint64_t m = idxbytes ? rng_below(r, idxbytes + 1) : 0;
            uint64_t cnt = 0;
            for (unsigned K = 1; K <= w; K++) {
                __uint128_t t = ((__uint128_t)K << 64) + m;
                if (t % w == 0 && (t / w) <= UINT64_MAX) {
                    cnt = (uint64_t)(t / w);
                    break;
                }
            }
            if (!cnt) cnt = (1ULL << 63) + m / 2;
            uint8_t cv[9];
            size_t ncv = put_tagged(cv, cnt);
            uint8_t *nb = malloc(full + 16);
            memcpy(nb, h->b, off);
            memcpy(nb + off, cv, ncv);
            memcpy(nb + off + ncv, h->b + off + cl, idxbytes);
            free(h->b);
            h->b = nb;
            n = off + ncv + idxbytes;
            STAT_INC("c14_dict_wrapping_count_inputs");
            break;
        }
        if (rng_chance(r, 1, 3)) {
            /* a well-formed dictionary whose size sits exactly at an index-width boundary, with some indices replaced
             * by the largest values their width can hold, the dictionary size itself and its neighbours */
            static const size_t sizes[] = {255, 256, 257, 65535, 65536, 65537, 1, 2};
            size_t u = sizes[rng_below(r, rng_chance(r, 1, 4) ? 8 : 3)];
            size_t nv = u + 1 + rng_below(r, 40);
            uint64_t *vals = malloc(nv * 8);
            for (size_t i = 0; i < nv; i++) vals[i] = (i < u ? i : rng_below(r, u)) * 7 + 3;
            free(h->b);
            h->b = malloc(scratch_size(nv) + 64);
            size_t full = varintDictEncode(h->b, vals, nv);
            free(vals);
            uint64_t ds, tmp;
            size_t off = (size_t)ref_tagged_read(h->b, &ds);
            for (uint64_t i = 0; i < ds; i++) off += (size_t)ref_tagged_read(h->b + off, &tmp);
            off += (size_t)ref_tagged_read(h->b + off, &tmp);
            unsigned w = (unsigned)ref_bytes_needed(ds - 1);
            if (w == 0) w = 1;
            size_t nidx = (full - off) / w;
            int edits = 1 + (int)rng_below(r, 3);
            for (int e = 0; e < edits && nidx; e++) {
                size_t at = rng_chance(r, 1, 3) ? nidx - 1 : rng_below(r, nidx);
                uint64_t cands[5] = {~0ULL, ds, ds - 1, ds + 1, (1ULL << (8 * w - 1))};
                uint64_t x = cands[rng_below(r, 5)];
                for (unsigned b = 0; b < w; b++) h->b[off + at * w + b] = (uint8_t)(x >> (8 * b));
            }
            n = full;
            h->nvals = nv; /* so that the output capacity given to DecodeInto is the declared count */
            STAT_INC("c14_dict_boundary_size_with_extreme_indices");
            break;
        }
        uint64_t ds = rng_chance(r, 1, 2) ? rng_below(r, 5) : huge[rng_below(r, 11)];
        n += put_tagged(h->b + n, ds);
        size_t ne = ds < 5 ? (size_t)ds : rng_below(r, 4);
        for (size_t i = 0; i < ne; i++) n += put_tagged(h->b + n, gen_value(r));
        n += put_tagged(h->b + n, huge[rng_below(r, 11)] + rng_below(r, 3));
        size_t tail = rng_below(r, 12);
        rng_fill(r, h->b + n, tail);
        n += tail;
        break;
    }
    case EP_GAMMA:
    case EP_EDELTA: {
        /* gamma: more than 63 zeros; delta: a length prefix announcing more than 64 bits */
        n = 1 + rng_below(r, 40);
        memset(h->b, 0, n);
        if (ep == EP_EDELTA && rng_chance(r, 2, 3)) {
            /* gamma(len) with len in 65..127: 6 zeros then 7 bits */
            varintBitWriter bw;
            varintBitWriterInit(&bw, h->b, 64);
            varintEliasGammaEncode(&bw, 65 + rng_below(r, 60));
            varintBitWriterWrite(&bw, rng_next(r), 40);
            n = 1 + rng_below(r, 12);
        } else if (rng_chance(r, 1, 2)) {
            h->b[rng_below(r, n)] = 1; /* a one bit far away */
        }
        h->bits = n * 8 - rng_below(r, 8);
        break;
    }
    case EP_BITMAP: {
        if (rng_chance(r, 1, 3)) {
            /* complete-looking containers the encoder never produces: any type with any declared cardinality and a
             * payload long enough for it (array containers above 4096 members, bitmaps with a wrong count, ...) */
            static const uint32_t cards[] = {0, 1, 4095, 4096, 4097, 4098, 5000, 8192, 32768, 65535, 65536, 65537, 70000};
            uint32_t card = cards[rng_below(r, sizeof cards / sizeof cards[0])];
            unsigned type = (unsigned)rng_below(r, 3);
            free(h->b);
            h->b = calloc(1, 16 + (size_t)card * 4 + 8192);
            h->b[0] = (uint8_t)type;
            memcpy(h->b + 1, &card, 4);
            n = 5;
            if (type == 0) {
                bool sorted = rng_chance(r, 3, 4);
                uint32_t v = (uint32_t)rng_below(r, 3);
                for (uint32_t i = 0; i < card; i++) {
                    uint16_t x = sorted ? (uint16_t)v : (uint16_t)rng_next(r);
                    memcpy(h->b + n, &x, 2);
                    n += 2;
                    v += card <= 65536 && card ? (65536 - 3) / (card ? card : 1) : 1;
                    if (v > 65535) v = 65535;
                }
            } else if (type == 1) {
                rng_fill(r, h->b + n, 8192);
                n += 8192;
            } else {
                uint32_t runs = card ? 1 + (uint32_t)rng_below(r, card < 5000 ? card : 5000) : 0;
                memcpy(h->b + n, &runs, 4);
                n += 4;
                uint32_t v = 0;
                for (uint32_t i = 0; i < runs; i++) {
                    uint16_t a = (uint16_t)v, b2 = (uint16_t)(v + rng_below(r, 20));
                    memcpy(h->b + n, &a, 2);
                    memcpy(h->b + n + 2, &b2, 2);
                    n += 4;
                    v = b2 + 2 + (uint32_t)rng_below(r, 10);
                    if (v > 65535) v = 65535;
                }
            }
            if (rng_chance(r, 1, 4) && n > 6) n -= 1 + rng_below(r, 3); /* or a little short */
            STAT_INC("c14_bitmap_complete_looking_containers");
            break;
        }
        h->b[0] = (uint8_t)(rng_chance(r, 3, 4) ? rng_below(r, 3) : rng_next(r));
        uint32_t card = (uint32_t)(rng_chance(r, 1, 2) ? huge[rng_below(r, 11)] : rng_below(r, 70000));
        memcpy(h->b + 1, &card, 4);
        uint32_t runs = (uint32_t)(rng_chance(r, 1, 2) ? 0xffffffffu - rng_below(r, 3) : rng_below(r, 70000));
        memcpy(h->b + 5, &runs, 4);
        n = rng_below(r, 40);
        rng_fill(r, h->b + 9, 31);
        break;
    }
    case EP_RLECOUNT: {
        /* runs whose last value varint is cut, run lengths of zero, 9-byte prefixes */
        size_t k = rng_below(r, 5);
        for (size_t i = 0; i < k; i++) {
            uint64_t rl = rng_chance(r, 1, 5) ? 0 : 1 + rng_below(r, 300);
            if (rng_chance(r, 1, 3)) rl = huge[rng_below(r, 11)] | (rng_chance(r, 1, 2) ? (1ULL << 56) : 0); /* 5..9-byte run lengths */
            n += put_tagged(h->b + n, rl);
            n += put_tagged(h->b + n, rng_chance(r, 1, 2) ? gen_value(r) | (1ULL << 60) : gen_value(r));
        }
        h->b[n++] = (uint8_t)(249 + rng_below(r, 7));
        n += rng_below(r, 3);
        break;
    }
    default: { /* tagged */
        h->b[0] = (uint8_t)(241 + rng_below(r, 15));
        rng_fill(r, h->b + 1, 9);
        n = rng_below(r, 10);
        break;
    }
    }
    h->n = n;
    if (ep != EP_GAMMA && ep != EP_EDELTA) h->bits = n * 8;
}

/* complete runs ([length][value], both tagged) lying entirely inside the first L bytes */
static size_t ref_count_runs_prefix(const uint8_t *b, size_t L) {
    size_t off = 0, runs = 0;
    while (off < L) {
        size_t l1 = b[off] <= 240 ? 1 : b[off] <= 248 ? 2 : (size_t)b[off] - 246;
        if (off + l1 > L) break;
        uint64_t len;
        ref_tagged_read(b + off, &len);
        if (off + l1 >= L) break;
        size_t l2 = b[off + l1] <= 240 ? 1 : b[off + l1] <= 248 ? 2 : (size_t)b[off + l1] - 246;
        if (off + l1 + l2 > L) break;
        if (len == 0) break;
        runs++;
        off += l1 + l2;
    }
    return runs;
}

/* ---------------------------------------------------------------- runners */
static void run_one_input(int ep, rng_t *r, const hin_t *h) {
    size_t L = h->n;
    uint8_t *src = exact_copy(h->b, L);
    g_ctx = EPN[ep];
    snprintf(g_sub, sizeof g_sub, "kind=%s declared=%zu bytes%s first=%s", KN[h->kind], L, h->intact ? " (intact)" : "", hexs(h->b, L < 12 ? L : 12));
    g_kind[ep][h->kind]++;
    alarm(10);
    wa_arm(0);
    switch (ep) {
    case EP_TAGGED: {
        uint64_t v = 0x5a5a5a5a5a5a5a5aULL;
        int ret = varintTaggedGet(src, (int32_t)L, &v);
        wa_disarm();
        int announced = L ? (src[0] <= 240 ? 1 : src[0] <= 248 ? 2 : src[0] - 246) : 1;
        if (L < (size_t)announced) {
            if (ret != 0) HFAIL(ep, "cut-short-varint-not-reported-as-length-0", "n=%zu first byte %u announces %d bytes, returned %d", L, L ? src[0] : 0, announced, ret);
            g_rej[ep]++;
        } else {
            uint64_t want;
            int wl = ref_tagged_read(src, &want);
            if (ret != wl || v != want) HFAIL(ep, "complete-varint-misread", "n=%zu bytes %s returned %d value %" PRIu64 " want %d/%" PRIu64, L, hexs(src, (size_t)wl), ret, v, wl, want);
            g_acc[ep]++;
        }
        break;
    }
    case EP_DICT: {
        size_t cnt = (size_t)-1;
        uint64_t *out = varintDictDecode(src, L, &cnt);
        wa_disarm();
        check_alloc(ep, L);
        if (out) {
            g_acc[ep]++;
            if (h->intact && (cnt != h->nvals || memcmp(out, h->vals, cnt * 8))) HFAIL(ep, "valid-encoding-misdecoded", "n=%zu", h->nvals);
            if (h->kind == 1 && L < h->n) HFAIL(ep, "truncated-encoding-accepted", "declared %zu bytes", L);
            free(out);
        } else {
            g_rej[ep]++;
            if (h->intact) HFAIL(ep, "valid-encoding-rejected", "n=%zu bytes=%zu", h->nvals, L);
        }
        break;
    }
    case EP_DICTINTO: {
        size_t cap = h->nvals ? (rng_chance(r, 1, 3) ? rng_below(r, h->nvals + 1) : h->nvals) : rng_below(r, 40);
        gbuf_t gb;
        wa_pause();
        gbuf_alloc(&gb, cap * 8, 4096, 0x77);
        wa_resume();
        size_t ret = varintDictDecodeInto(src, L, (uint64_t *)gb.p, cap);
        wa_disarm();
        check_alloc(ep, L);
        if (gbuf_check(&gb) != -1 || ret > cap) HFAIL(ep, "write-past-output-capacity", "capacity %zu returned %zu", cap, ret);
        if (ret) g_acc[ep]++;
        else g_rej[ep]++;
        if (h->intact && cap == h->nvals && (ret != h->nvals || memcmp(gb.p, h->vals, ret * 8))) HFAIL(ep, "valid-encoding-misdecoded", "n=%zu ret=%zu", h->nvals, ret);
        gbuf_free(&gb);
        break;
    }
    case EP_GAMMA:
    case EP_EDELTA: {
        size_t cap = h->nvals ? h->nvals + 2 : 64;
        if (rng_chance(r, 1, 4)) cap = rng_below(r, cap + 1);
        /* bits of the last byte beyond the declared bit count must not matter: run with them 0 and 1 */
        uint64_t *res[2];
        size_t rn[2];
        for (int pass = 0; pass < 2; pass++) {
            if (L && (h->bits & 7)) {
                uint8_t m = (uint8_t)(0xffu >> (h->bits & 7));
                src[L - 1] = pass ? (uint8_t)(src[L - 1] | m) : (uint8_t)(src[L - 1] & ~m);
            }
            gbuf_t gb;
            wa_pause();
            gbuf_alloc(&gb, cap * 8, 4096, 0x33);
            memset(gb.p, 0xCD, cap * 8);
            wa_resume();
            rn[pass] = ep == EP_GAMMA ? varintEliasGammaDecodeArray(src, h->bits, (uint64_t *)gb.p, cap) : varintEliasDeltaDecodeArray(src, h->bits, (uint64_t *)gb.p, cap);
            wa_pause();
            if (gbuf_check(&gb) != -1 || rn[pass] > cap) HFAIL(ep, "write-past-output-capacity", "capacity %zu returned %zu", cap, rn[pass]);
            res[pass] = malloc(cap * 8 + 8);
            memcpy(res[pass], gb.p, (rn[pass] <= cap ? rn[pass] : cap) * 8);
            gbuf_free(&gb);
            wa_resume();
        }
        wa_disarm();
        if (rn[0] != rn[1] || memcmp(res[0], res[1], (rn[0] <= cap ? rn[0] : cap) * 8)) {
            HFAIL(ep, "result-depends-on-bits-beyond-declared-size", "declared %zu bits (%zu bytes): %zu values with trailing bits 0, %zu with trailing bits 1", h->bits, L, rn[0], rn[1]);
        } else if (h->vals && (h->kind == 0 || h->kind == 1)) {
            size_t want = h->kind == 0 ? h->nvals : h->valid_prefix_vals;
            if (want > cap) want = cap;
            if (rn[0] != want || memcmp(res[0], h->vals, want * 8)) HFAIL(ep, h->kind == 0 ? "valid-encoding-misdecoded" : "truncated-encoding-not-a-correct-prefix", "declared %zu bits: returned %zu values, %zu whole codes fit", h->bits, rn[0], want);
        }
        if (rn[0]) g_acc[ep]++;
        else g_rej[ep]++;
        /* the same bytes through the public bit reader + single-code decoders, continuing after an error the way a
         * re-synchronising caller would: whatever was returned must not depend on bits beyond the declared count */
        {
            uint64_t seq[2][48];
            int ns[2] = {0, 0};
            for (int pass = 0; pass < 2; pass++) {
                if (L && (h->bits & 7)) {
                    uint8_t m = (uint8_t)(0xffu >> (h->bits & 7));
                    src[L - 1] = pass ? (uint8_t)(src[L - 1] | m) : (uint8_t)(src[L - 1] & ~m);
                }
                varintBitReader br;
                varintBitReaderInit(&br, src, h->bits);
                g_ctx = ep == EP_GAMMA ? "varintEliasGammaDecode" : "varintEliasDeltaDecode";
                int errors = 0;
                while (ns[pass] < 48 && errors < 3) {
                    bool more = varintBitReaderHasMore(&br, 1);
                    uint64_t v = more ? (ep == EP_GAMMA ? varintEliasGammaDecode(&br) : varintEliasDeltaDecode(&br)) : 0;
                    seq[pass][ns[pass]++] = more ? v : ~(uint64_t)0;
                    if (!more) break;
                    if (v == 0) errors++;
                }
            }
            if (ns[0] != ns[1] || memcmp(seq[0], seq[1], (size_t)ns[0] * 8)) HFAIL(ep, "reader-result-depends-on-bits-beyond-declared-size", "declared %zu bits: single-code decoding after an error read beyond the declared size", h->bits);
            STAT_INC("c14_elias_reader_histories");
        }
        free(res[0]);
        free(res[1]);
        break;
    }
    case EP_BITMAP: {
        varintBitmap *vb = varintBitmapDecode(src, L);
        wa_disarm();
        check_alloc(ep, L);
        if (vb) {
            g_acc[ep]++;
            uint32_t card = varintBitmapCardinality(vb);
            if (h->intact && card != h->nvals) HFAIL(ep, "valid-encoding-misdecoded", "cardinality %u want %zu", card, h->nvals);
            if (h->kind == 1 && L < 5) HFAIL(ep, "truncated-encoding-accepted", "declared %zu bytes", L);
            varintBitmapFree(vb);
        } else {
            g_rej[ep]++;
            if (h->intact) HFAIL(ep, "valid-encoding-rejected", "bytes=%zu", L);
        }
        break;
    }
    default: {
        size_t runs = varintRLEGetRunCount(src, L);
        wa_disarm();
        if (h->vals && h->kind <= 1) {
            size_t want = ref_count_runs_prefix(h->b, L);
            if (h->intact ? runs != want : runs > want) HFAIL(ep, "run-count-differs-from-complete-runs-in-declared-bytes", "declared %zu bytes: returned %zu, complete runs %zu", L, runs, want);
        }
        if (runs) g_acc[ep]++;
        else g_rej[ep]++;
        break;
    }
    }
    alarm(0);
    g_sub[0] = 0;
    STAT_INC("c14_inputs");
    free(src);
}

static void hostile_case(uint64_t idx, rng_t *r) {
    uint64_t g = idx * g_nshards + g_shard;
    int ep = (int)(g % EP_N);
    int kind = (int)rng_below(r, 5);
    hin_t h;
    memset(&h, 0, sizeof h);
    if (kind <= 2) {
        make_valid(ep, r, &h);
        if (kind == 0) {
            run_one_input(ep, r, &h);
        } else if (kind == 1) {
            /* every truncation for short encodings, sampled ones otherwise */
            size_t full = (ep == EP_GAMMA || ep == EP_EDELTA) ? h.bits : h.n;
            size_t fulln = h.n, fullbits = h.bits;
            size_t steps = full <= 160 ? full : 40 + 24;
            for (size_t s = 0; s < steps; s++) {
                /* long encodings: 40 sampled cuts, then the last 16 positions and 8 cuts just inside the head */
                size_t cut = full <= 160 ? s : s < 40 ? rng_below(r, full) : s < 56 ? full - 1 - (s - 40) : s - 56;
                if (full > 160 && s >= 40) STAT_INC("c14_tail_and_head_cuts_of_long_encodings");
                h.n = fulln;
                h.bits = fullbits;
                derive(ep, r, &h, 1, cut);
                run_one_input(ep, r, &h);
                STAT_INC("c14_truncations");
            }
        } else {
            derive(ep, r, &h, 2, 0);
            run_one_input(ep, r, &h);
        }
    } else if (kind == 3) {
        make_random(r, &h, ep);
        run_one_input(ep, r, &h);
    } else {
        make_hostile_header(r, &h, ep);
        run_one_input(ep, r, &h);
        if (ep == EP_RLECOUNT && h.n > 1) {
            /* hostile run records (9-byte lengths cannot come from truncating a valid encoding) cut at each of their
             * last positions */
            size_t full = h.n;
            for (size_t back = 1; back <= 20 && back < full; back++) {
                h.n = full - back;
                run_one_input(ep, r, &h);
                STAT_INC("c14_truncations_of_hostile_run_records");
            }
            h.n = full;
        }
    }
    if (want_sample()) sample("{\"entry\":\"%s\",\"kind\":\"%s\",\"declared_bytes\":%zu,\"head\":\"%s\"}", EPN[ep], KN[h.kind], h.n, hexs(h.b, h.n < 10 ? h.n : 10));
    STAT_INC("distinct_nontrivial");
    free(h.b);
    free(h.vals);
}

int main(int argc, char **argv) {
    parse_args(argc, argv);
    install_handlers();
    gen_init();
    CASE_LOOP(hostile_case);
    for (int e = 0; e < EP_N; e++) {
        printf("STAT accepted.%s %" PRIu64 "\nSTAT rejected.%s %" PRIu64 "\n", EPN[e], g_acc[e], EPN[e], g_rej[e]);
        for (int k = 0; k < 5; k++) printf("STAT kind.%s.%s %" PRIu64 "\n", EPN[e], KN[k], g_kind[e][k]);
    }
    fflush(stdout);
    return 0;
}
