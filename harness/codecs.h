/* codecs.h — uniform wrappers around every integer-array codec.
 * One codec_t per (codec, encoder variant, decoder variant). */
#ifndef VERIF_CODECS_H
#define VERIF_CODECS_H
#include "common.h"
#include "gen.h"
#include "ref_scalar.h"

#include "varintAdaptive.h"
#include "varintBP128.h"
#include "varintBitmap.h"
#include "varintDelta.h"
#include "varintDict.h"
#include "varintElias.h"
#include "varintFOR.h"
#include "varintGroup.h"
#include "varintPFOR.h"
#include "varintRLE.h"

/* output-only metadata structs are poisoned before the call so that an unwritten field is
 * distinguishable from a written one (0xEE pattern; additionally MSan-poisoned under MSan) */
#if VERIF_MSAN
#include <sanitizer/msan_interface.h>
#define POISON(p, n) (memset((p), 0xEE, (n)), __msan_allocated_memory((p), (n)))
#else
#define POISON(p, n) memset((p), 0xEE, (n))
#endif

/* what the encoder reported about its own output */
typedef struct {
    size_t ret;      /* encoder return value (bytes) */
    size_t bits;     /* Elias: total bits */
    varintFORMeta forMeta;
    varintPFORMeta pforMeta;
    varintRLEMeta rleMeta;
    varintEliasMeta eliasMeta;
    varintBP128Meta bpMeta;
    varintAdaptiveMeta adMeta;
    bool has_meta;
} encinfo_t;

enum { DOM_ANY, DOM_SIGNED_DELTA, DOM_GE1, DOM_SORTED, DOM_GROUP, DOM_STRICT16, DOM_DICT };

typedef struct codec {
    const char *name;     /* codec + variant */
    const char *encname;  /* library entry point for g_ctx */
    const char *decname;
    int elembits;         /* 64 or 32 */
    int domain;
    size_t maxlen;        /* 0 = unlimited */
    /* advertised size for this input; exact=true when documented as exact */
    size_t (*bound)(const uint64_t *a, size_t n);
    const char *boundname;
    bool bound_exact;
    size_t (*encode)(uint8_t *dst, const uint64_t *a, size_t n, encinfo_t *info);
    /* full decode with the original count; returns number of elements produced */
    size_t (*decode)(const uint8_t *src, size_t nbytes, const encinfo_t *info, uint64_t *out, size_t n);
    /* random access; returns false if unsupported */
    bool (*getat)(const uint8_t *src, size_t nbytes, const encinfo_t *info, size_t n, size_t idx, uint64_t *v);
    /* capacity-limited decode into out[cap]; returns r (elements reported) */
    size_t (*decode_cap)(const uint8_t *src, size_t nbytes, const encinfo_t *info, void *out, size_t cap, size_t n);
    bool cap_may_refuse; /* documented to return 0 when count > capacity */
    int param;
} codec_t;

/* 32-bit helpers: arrays are carried as uint64_t in the harness */
static uint32_t *to32(const uint64_t *a, size_t n) {
    uint32_t *p = malloc(n ? n * 4 : 1);
    for (size_t i = 0; i < n; i++) p[i] = (uint32_t)a[i];
    return p;
}

/* ---------------------------------------------------------------- delta */
static size_t b_delta(const uint64_t *a, size_t n) { (void)a; return varintDeltaMaxEncodedSize(n); }
static size_t e_delta_s(uint8_t *d, const uint64_t *a, size_t n, encinfo_t *i) { (void)i; return varintDeltaEncode(d, (const int64_t *)a, n); }
static size_t d_delta_s(const uint8_t *s, size_t nb, const encinfo_t *i, uint64_t *o, size_t n) {
    (void)i;
    size_t used = varintDeltaDecode(s, n, (int64_t *)o);
    return used == nb ? n : (size_t)-1 - used; /* bytes consumed must equal bytes written */
}
static size_t e_delta_u(uint8_t *d, const uint64_t *a, size_t n, encinfo_t *i) { (void)i; return varintDeltaEncodeUnsigned(d, a, n); }
static size_t d_delta_u(const uint8_t *s, size_t nb, const encinfo_t *i, uint64_t *o, size_t n) {
    (void)i;
    size_t used = varintDeltaDecodeUnsigned(s, n, o);
    return used == nb ? n : (size_t)-1 - used;
}

/* ------------------------------------------------------------------ FOR */
static size_t b_for(const uint64_t *a, size_t n) { varintFORMeta m; memset(&m, 0, sizeof m); varintFORAnalyze(a, n, &m); return varintFORSize(&m); }
static size_t e_for(uint8_t *d, const uint64_t *a, size_t n, encinfo_t *i) { memset(&i->forMeta, 0, sizeof i->forMeta); i->has_meta = true; return varintFOREncode(d, a, n, &i->forMeta); }
static size_t e_for_pre(uint8_t *d, const uint64_t *a, size_t n, encinfo_t *i) { /* caller analysed first */
    memset(&i->forMeta, 0, sizeof i->forMeta); i->has_meta = true;
    varintFORAnalyze(a, n, &i->forMeta);
    return varintFOREncode(d, a, n, &i->forMeta);
}
static size_t e_for_batch(uint8_t *d, const uint64_t *a, size_t n, encinfo_t *i) { memset(&i->forMeta, 0, sizeof i->forMeta); i->has_meta = true; return varintFORBatchEncode(d, a, n, &i->forMeta); }
static size_t e_for_null(uint8_t *d, const uint64_t *a, size_t n, encinfo_t *i) { (void)i; return varintFOREncode(d, a, n, NULL); }
static size_t d_for(const uint8_t *s, size_t nb, const encinfo_t *i, uint64_t *o, size_t n) { (void)nb; (void)i; return varintFORDecode(s, o, n); }
static size_t d_for_batch(const uint8_t *s, size_t nb, const encinfo_t *i, uint64_t *o, size_t n) { (void)nb; (void)i; return varintFORBatchDecode(s, o, n); }
static bool g_for(const uint8_t *s, size_t nb, const encinfo_t *i, size_t n, size_t idx, uint64_t *v) { (void)nb; (void)i; (void)n; *v = varintFORGetAt(s, idx); return true; }
static size_t c_for(const uint8_t *s, size_t nb, const encinfo_t *i, void *o, size_t cap, size_t n) { (void)nb; (void)i; (void)n; return varintFORDecode(s, o, cap); }
static size_t c_for_batch(const uint8_t *s, size_t nb, const encinfo_t *i, void *o, size_t cap, size_t n) { (void)nb; (void)i; (void)n; return varintFORBatchDecode(s, o, cap); }

/* ----------------------------------------------------------------- PFOR */
static int g_pfor_threshold = 95;
static size_t b_pfor_t(const uint64_t *a, size_t n, int t) { varintPFORMeta m; memset(&m, 0, sizeof m); varintPFORComputeThreshold(a, (uint32_t)n, (uint32_t)t, &m); return varintPFORSize(&m); }
static size_t b_pfor90(const uint64_t *a, size_t n) { return b_pfor_t(a, n, 90); }
static size_t b_pfor95(const uint64_t *a, size_t n) { return b_pfor_t(a, n, 95); }
static size_t b_pfor99(const uint64_t *a, size_t n) { return b_pfor_t(a, n, 99); }
static size_t b_pfor100(const uint64_t *a, size_t n) { return b_pfor_t(a, n, 100); }
static size_t b_pfor40(const uint64_t *a, size_t n) { return b_pfor_t(a, n, 40); }
static size_t e_pfor_t(uint8_t *d, const uint64_t *a, size_t n, encinfo_t *i, int t) { POISON(&i->pforMeta, sizeof i->pforMeta); i->has_meta = true; return varintPFOREncode(d, a, (uint32_t)n, (uint32_t)t, &i->pforMeta); }
static size_t e_pfor90(uint8_t *d, const uint64_t *a, size_t n, encinfo_t *i) { return e_pfor_t(d, a, n, i, 90); }
static size_t e_pfor95(uint8_t *d, const uint64_t *a, size_t n, encinfo_t *i) { return e_pfor_t(d, a, n, i, 95); }
static size_t e_pfor99(uint8_t *d, const uint64_t *a, size_t n, encinfo_t *i) { return e_pfor_t(d, a, n, i, 99); }
static size_t e_pfor100(uint8_t *d, const uint64_t *a, size_t n, encinfo_t *i) { return e_pfor_t(d, a, n, i, 100); }
static size_t e_pfor40(uint8_t *d, const uint64_t *a, size_t n, encinfo_t *i) { return e_pfor_t(d, a, n, i, 40); }
/* decoder entry style 1: zeroed meta = "read the header" */
static size_t d_pfor_hdr(const uint8_t *s, size_t nb, const encinfo_t *i, uint64_t *o, size_t n) { (void)nb; (void)i; (void)n; varintPFORMeta m; memset(&m, 0, sizeof m); return varintPFORDecode(s, o, &m); }
/* style 2: the encoder's meta */
static size_t d_pfor_meta(const uint8_t *s, size_t nb, const encinfo_t *i, uint64_t *o, size_t n) { (void)nb; (void)n; varintPFORMeta m = i->pforMeta; return varintPFORDecode(s, o, &m); }
static bool g_pfor(const uint8_t *s, size_t nb, const encinfo_t *i, size_t n, size_t idx, uint64_t *v) { (void)nb; (void)n; *v = varintPFORGetAt(s, (uint32_t)idx, &i->pforMeta); return true; }
/* random access through metadata re-read from the bytes */
static bool g_pfor_readmeta(const uint8_t *s, size_t nb, const encinfo_t *i, size_t n, size_t idx, uint64_t *v) { (void)nb; (void)n; (void)i; varintPFORMeta m; memset(&m, (idx & 1) ? 0xFF : 0, sizeof m); /* ReadMeta fills what the stream holds; whatever the struct held before must not matter */ varintPFORReadMeta(s, &m); *v = varintPFORGetAt(s, (uint32_t)idx, &m); return true; }

/* ---------------------------------------------------------------- group */
static size_t b_group(const uint64_t *a, size_t n) { return varintGroupSize(a, (uint8_t)n); }
static size_t e_group(uint8_t *d, const uint64_t *a, size_t n, encinfo_t *i) { (void)i; return varintGroupEncode(d, a, (uint8_t)n); }
static size_t d_group(const uint8_t *s, size_t nb, const encinfo_t *i, uint64_t *o, size_t n) {
    (void)i;
    uint8_t fc = 0;
    size_t used = varintGroupDecode(s, o, &fc, n);
    if (used != nb) return (size_t)-1 - used;
    return fc;
}
static bool g_group(const uint8_t *s, size_t nb, const encinfo_t *i, size_t n, size_t idx, uint64_t *v) { (void)nb; (void)i; (void)n; return varintGroupGetField(s, (uint8_t)idx, v) != 0; }
static size_t c_group(const uint8_t *s, size_t nb, const encinfo_t *i, void *o, size_t cap, size_t n) { (void)nb; (void)i; (void)n; uint8_t fc = 0; size_t used = varintGroupDecode(s, o, &fc, cap); return used ? fc : 0; }

static size_t e_group_put(uint8_t *d, const uint64_t *a, size_t n, encinfo_t *i) { (void)i; return varintGroupPut(d, a, (uint8_t)n); }
static size_t d_group_get(const uint8_t *s, size_t nb, const encinfo_t *i, uint64_t *o, size_t n) {
    (void)i;
    uint8_t fc = 0;
    size_t used = varintGroupGet(s, o, &fc, n);
    if (used != nb) return (size_t)-1 - used;
    return fc;
}

/* ----------------------------------------------------------------- dict */
static size_t b_dict(const uint64_t *a, size_t n) { return varintDictEncodedSize(a, n); }
static size_t e_dict(uint8_t *d, const uint64_t *a, size_t n, encinfo_t *i) { (void)i; return varintDictEncode(d, a, n); }
static size_t b_dict_with(const uint64_t *a, size_t n) { varintDict *dc = varintDictCreate(); varintDictBuild(dc, a, n); size_t r = varintDictEncodedSizeWithDict(dc, n); varintDictFree(dc); return r; }
static size_t e_dict_with(uint8_t *d, const uint64_t *a, size_t n, encinfo_t *i) { (void)i; varintDict *dc = varintDictCreate(); varintDictBuild(dc, a, n); size_t r = varintDictEncodeWithDict(d, dc, a, n); varintDictFree(dc); return r; }
static size_t d_dict(const uint8_t *s, size_t nb, const encinfo_t *i, uint64_t *o, size_t n) {
    (void)i;
    size_t cnt = 0;
    uint64_t *r = varintDictDecode(s, nb, &cnt);
    if (!r) return 0;
    memcpy(o, r, (cnt < n ? cnt : n) * 8);
    free(r);
    return cnt;
}
static size_t d_dict_into(const uint8_t *s, size_t nb, const encinfo_t *i, uint64_t *o, size_t n) { (void)i; return varintDictDecodeInto(s, nb, o, n); }
static size_t c_dict_into(const uint8_t *s, size_t nb, const encinfo_t *i, void *o, size_t cap, size_t n) { (void)i; (void)n; return varintDictDecodeInto(s, nb, o, cap); }

/* ------------------------------------------------------------------ RLE */
static size_t b_rle_max(const uint64_t *a, size_t n) { (void)a; return varintRLEMaxSize(n); }
static size_t b_rle_size(const uint64_t *a, size_t n) { return varintRLESize(a, n); }
static size_t e_rle(uint8_t *d, const uint64_t *a, size_t n, encinfo_t *i) { POISON(&i->rleMeta, sizeof i->rleMeta); i->has_meta = true; return varintRLEEncode(d, a, n, &i->rleMeta); }
static size_t e_rle_hdr(uint8_t *d, const uint64_t *a, size_t n, encinfo_t *i) { POISON(&i->rleMeta, sizeof i->rleMeta); i->has_meta = true; return varintRLEEncodeWithHeader(d, a, n, &i->rleMeta); }
static size_t d_rle(const uint8_t *s, size_t nb, const encinfo_t *i, uint64_t *o, size_t n) { (void)nb; (void)i; return varintRLEDecode(s, o, n); }
static size_t d_rle_hdr(const uint8_t *s, size_t nb, const encinfo_t *i, uint64_t *o, size_t n) { (void)nb; (void)i; return varintRLEDecodeWithHeader(s, o, n); }
static bool g_rle(const uint8_t *s, size_t nb, const encinfo_t *i, size_t n, size_t idx, uint64_t *v) { (void)nb; (void)i; (void)n; *v = varintRLEGetAt(s, idx); return true; }
/* run walk: element idx found by stepping run by run over exactly the written bytes */
static bool g_rle_walk(const uint8_t *s, size_t nb, const encinfo_t *i, size_t n, size_t idx, uint64_t *v) {
    (void)i; (void)n;
    size_t pos = 0, off = 0;
    while (off < nb) {
        size_t rl = 0; uint64_t val = 0;
        off += varintRLEDecodeRun(s + off, &rl, &val);
        if (idx < pos + rl) { *v = val; return true; }
        pos += rl;
    }
    *v = ~(uint64_t)0; /* ran off the end */
    return true;
}
static size_t c_rle(const uint8_t *s, size_t nb, const encinfo_t *i, void *o, size_t cap, size_t n) { (void)nb; (void)i; (void)n; return varintRLEDecode(s, o, cap); }
static size_t c_rle_hdr(const uint8_t *s, size_t nb, const encinfo_t *i, void *o, size_t cap, size_t n) { (void)nb; (void)i; (void)n; return varintRLEDecodeWithHeader(s, o, cap); }

/* ---------------------------------------------------------------- Elias */
static size_t b_gamma(const uint64_t *a, size_t n) { (void)a; return varintEliasGammaMaxBytes(n); }
static size_t b_edelta(const uint64_t *a, size_t n) { (void)a; return varintEliasDeltaMaxBytes(n); }
static size_t e_gamma(uint8_t *d, const uint64_t *a, size_t n, encinfo_t *i) { POISON(&i->eliasMeta, sizeof i->eliasMeta); i->has_meta = true; size_t r = varintEliasGammaEncodeArray(d, a, n, &i->eliasMeta); i->bits = i->eliasMeta.totalBits; return r; }
static size_t e_edelta(uint8_t *d, const uint64_t *a, size_t n, encinfo_t *i) { POISON(&i->eliasMeta, sizeof i->eliasMeta); i->has_meta = true; size_t r = varintEliasDeltaEncodeArray(d, a, n, &i->eliasMeta); i->bits = i->eliasMeta.totalBits; return r; }
static size_t d_gamma(const uint8_t *s, size_t nb, const encinfo_t *i, uint64_t *o, size_t n) { (void)nb; return varintEliasGammaDecodeArray(s, i->bits, o, n); }
static size_t d_edelta(const uint8_t *s, size_t nb, const encinfo_t *i, uint64_t *o, size_t n) { (void)nb; return varintEliasDeltaDecodeArray(s, i->bits, o, n); }
static size_t c_gamma(const uint8_t *s, size_t nb, const encinfo_t *i, void *o, size_t cap, size_t n) { (void)nb; (void)n; return varintEliasGammaDecodeArray(s, i->bits, o, cap); }
static size_t c_edelta(const uint8_t *s, size_t nb, const encinfo_t *i, void *o, size_t cap, size_t n) { (void)nb; (void)n; return varintEliasDeltaDecodeArray(s, i->bits, o, cap); }

/* ---------------------------------------------------------------- BP128 */
static size_t b_bp(const uint64_t *a, size_t n) { (void)a; return varintBP128MaxBytes(n); }
#define BP32(NAME, ENC, DEC)                                                                                           \
    static size_t e_##NAME(uint8_t *d, const uint64_t *a, size_t n, encinfo_t *i) {                                   \
        uint32_t *p = to32(a, n);                                                                                      \
        POISON(&i->bpMeta, sizeof i->bpMeta);                                                                    \
        i->has_meta = true;                                                                                            \
        size_t r = ENC(d, p, n, &i->bpMeta);                                                                           \
        free(p);                                                                                                       \
        return r;                                                                                                      \
    }                                                                                                                  \
    static size_t d_##NAME(const uint8_t *s, size_t nb, const encinfo_t *i, uint64_t *o, size_t n) {                  \
        (void)nb; (void)i;                                                                                             \
        uint32_t *p = malloc(n ? n * 4 : 1);                                                                           \
        size_t r = DEC(s, p, n);                                                                                       \
        for (size_t k = 0; k < n && k < r; k++) o[k] = p[k];                                                           \
        free(p);                                                                                                       \
        return r;                                                                                                      \
    }                                                                                                                  \
    static size_t c_##NAME(const uint8_t *s, size_t nb, const encinfo_t *i, void *o, size_t cap, size_t n) {          \
        (void)nb; (void)i; (void)n;                                                                                    \
        return DEC(s, o, cap);                                                                                         \
    }
BP32(bp32, varintBP128Encode32, varintBP128Decode32)
BP32(bpd32, varintBP128DeltaEncode32, varintBP128DeltaDecode32)
static size_t e_bp64(uint8_t *d, const uint64_t *a, size_t n, encinfo_t *i) { POISON(&i->bpMeta, sizeof i->bpMeta); i->has_meta = true; return varintBP128Encode64(d, a, n, &i->bpMeta); }
static size_t d_bp64(const uint8_t *s, size_t nb, const encinfo_t *i, uint64_t *o, size_t n) { (void)nb; (void)i; return varintBP128Decode64(s, o, n); }
static size_t c_bp64(const uint8_t *s, size_t nb, const encinfo_t *i, void *o, size_t cap, size_t n) { (void)nb; (void)i; (void)n; return varintBP128Decode64(s, o, cap); }
static size_t e_bpd64(uint8_t *d, const uint64_t *a, size_t n, encinfo_t *i) { POISON(&i->bpMeta, sizeof i->bpMeta); i->has_meta = true; return varintBP128DeltaEncode64(d, a, n, &i->bpMeta); }
static size_t d_bpd64(const uint8_t *s, size_t nb, const encinfo_t *i, uint64_t *o, size_t n) { (void)nb; (void)i; return varintBP128DeltaDecode64(s, o, n); }
static size_t c_bpd64(const uint8_t *s, size_t nb, const encinfo_t *i, void *o, size_t cap, size_t n) { (void)nb; (void)i; (void)n; return varintBP128DeltaDecode64(s, o, cap); }

/* ------------------------------------------------------------- adaptive */
static size_t b_adaptive(const uint64_t *a, size_t n) { (void)a; return varintAdaptiveMaxSize(n); }
static size_t e_ad_auto(uint8_t *d, const uint64_t *a, size_t n, encinfo_t *i) { POISON(&i->adMeta, sizeof i->adMeta); i->has_meta = true; return varintAdaptiveEncode(d, a, n, &i->adMeta); }
#define ADFORCE(NAME, TYPE)                                                                                            \
    static size_t e_ad_##NAME(uint8_t *d, const uint64_t *a, size_t n, encinfo_t *i) {                                \
        POISON(&i->adMeta, sizeof i->adMeta);                                                                    \
        i->has_meta = true;                                                                                            \
        return varintAdaptiveEncodeWith(d, a, n, TYPE, &i->adMeta);                                                    \
    }
ADFORCE(delta, VARINT_ADAPTIVE_DELTA)
ADFORCE(for, VARINT_ADAPTIVE_FOR)
ADFORCE(pfor, VARINT_ADAPTIVE_PFOR)
ADFORCE(dict, VARINT_ADAPTIVE_DICT)
ADFORCE(bitmap, VARINT_ADAPTIVE_BITMAP)
ADFORCE(tagged, VARINT_ADAPTIVE_TAGGED)
static size_t d_adaptive(const uint8_t *s, size_t nb, const encinfo_t *i, uint64_t *o, size_t n) { (void)nb; (void)i; varintAdaptiveMeta m; memset(&m, 0xEE, sizeof m); return varintAdaptiveDecode(s, o, n, &m); }
static size_t c_adaptive(const uint8_t *s, size_t nb, const encinfo_t *i, void *o, size_t cap, size_t n) { (void)nb; (void)i; (void)n; return varintAdaptiveDecode(s, o, cap, NULL); }

/* ---------------------------------------------------------------- table */
#define C(...) {__VA_ARGS__}
static const codec_t CODECS[] = {
    {.name = "delta.signed", .encname = "varintDeltaEncode", .decname = "varintDeltaDecode", .elembits = 64, .domain = DOM_SIGNED_DELTA, .bound = b_delta, .boundname = "varintDeltaMaxEncodedSize", .encode = e_delta_s, .decode = d_delta_s},
    {.name = "delta.unsigned", .encname = "varintDeltaEncodeUnsigned", .decname = "varintDeltaDecodeUnsigned", .elembits = 64, .bound = b_delta, .boundname = "varintDeltaMaxEncodedSize", .encode = e_delta_u, .decode = d_delta_u},
    {.name = "for", .encname = "varintFOREncode", .decname = "varintFORDecode", .elembits = 64, .bound = b_for, .boundname = "varintFORSize", .bound_exact = true, .encode = e_for, .decode = d_for, .getat = g_for, .decode_cap = c_for, .cap_may_refuse = true},
    {.name = "for.preanalysed", .encname = "varintFOREncode", .decname = "varintFORDecode", .elembits = 64, .bound = b_for, .boundname = "varintFORSize", .bound_exact = true, .encode = e_for_pre, .decode = d_for, .getat = g_for},
    {.name = "for.nullmeta", .encname = "varintFOREncode", .decname = "varintFORBatchDecode", .elembits = 64, .bound = b_for, .boundname = "varintFORSize", .bound_exact = true, .encode = e_for_null, .decode = d_for_batch, .getat = g_for},
    {.name = "for.batch", .encname = "varintFORBatchEncode", .decname = "varintFORBatchDecode", .elembits = 64, .bound = b_for, .boundname = "varintFORSize", .bound_exact = true, .encode = e_for_batch, .decode = d_for_batch, .getat = g_for, .decode_cap = c_for_batch, .cap_may_refuse = true},
    {.name = "for.batchenc-scalardec", .encname = "varintFORBatchEncode", .decname = "varintFORDecode", .elembits = 64, .bound = b_for, .boundname = "varintFORSize", .bound_exact = true, .encode = e_for_batch, .decode = d_for, .getat = g_for},
    {.name = "pfor.90", .encname = "varintPFOREncode", .decname = "varintPFORDecode", .elembits = 64, .bound = b_pfor90, .boundname = "varintPFORSize", .encode = e_pfor90, .decode = d_pfor_hdr, .getat = g_pfor, .param = 90},
    {.name = "pfor.95", .encname = "varintPFOREncode", .decname = "varintPFORDecode", .elembits = 64, .bound = b_pfor95, .boundname = "varintPFORSize", .encode = e_pfor95, .decode = d_pfor_meta, .getat = g_pfor_readmeta, .param = 95},
    {.name = "pfor.99", .encname = "varintPFOREncode", .decname = "varintPFORDecode", .elembits = 64, .bound = b_pfor99, .boundname = "varintPFORSize", .encode = e_pfor99, .decode = d_pfor_hdr, .getat = g_pfor, .param = 99},
    /* other legal percentile arguments: everything in the frame (no exceptions), and a percentile below one half */
    {.name = "pfor.100", .encname = "varintPFOREncode", .decname = "varintPFORDecode", .elembits = 64, .bound = b_pfor100, .boundname = "varintPFORSize", .encode = e_pfor100, .decode = d_pfor_hdr, .getat = g_pfor_readmeta, .param = 100},
    {.name = "pfor.40", .encname = "varintPFOREncode", .decname = "varintPFORDecode", .elembits = 64, .bound = b_pfor40, .boundname = "varintPFORSize", .encode = e_pfor40, .decode = d_pfor_meta, .getat = g_pfor, .param = 40},
    {.name = "group", .encname = "varintGroupEncode", .decname = "varintGroupDecode", .elembits = 64, .domain = DOM_GROUP, .maxlen = 64, .bound = b_group, .boundname = "varintGroupSize", .bound_exact = true, .encode = e_group, .decode = d_group, .getat = g_group, .decode_cap = c_group, .cap_may_refuse = true},
    {.name = "group.putget", .encname = "varintGroupPut", .decname = "varintGroupGet", .elembits = 64, .domain = DOM_GROUP, .maxlen = 64, .bound = b_group, .boundname = "varintGroupSize", .bound_exact = true, .encode = e_group_put, .decode = d_group_get, .getat = g_group},
    {.name = "dict", .encname = "varintDictEncode", .decname = "varintDictDecode", .elembits = 64, .domain = DOM_DICT, .bound = b_dict, .boundname = "varintDictEncodedSize", .bound_exact = true, .encode = e_dict, .decode = d_dict},
    {.name = "dict.into", .encname = "varintDictEncode", .decname = "varintDictDecodeInto", .elembits = 64, .domain = DOM_DICT, .bound = b_dict, .boundname = "varintDictEncodedSize", .bound_exact = true, .encode = e_dict, .decode = d_dict_into, .decode_cap = c_dict_into, .cap_may_refuse = true},
    {.name = "dict.withdict", .encname = "varintDictEncodeWithDict", .decname = "varintDictDecodeInto", .elembits = 64, .domain = DOM_DICT, .bound = b_dict_with, .boundname = "varintDictEncodedSizeWithDict", .bound_exact = true, .encode = e_dict_with, .decode = d_dict_into},
    {.name = "rle", .encname = "varintRLEEncode", .decname = "varintRLEDecode", .elembits = 64, .bound = b_rle_size, .boundname = "varintRLESize", .bound_exact = true, .encode = e_rle, .decode = d_rle, .getat = g_rle, .decode_cap = c_rle},
    {.name = "rle.maxsize", .encname = "varintRLEEncode", .decname = "varintRLEDecode", .elembits = 64, .bound = b_rle_max, .boundname = "varintRLEMaxSize", .encode = e_rle, .decode = d_rle, .getat = g_rle_walk},
    {.name = "rle.header", .encname = "varintRLEEncodeWithHeader", .decname = "varintRLEDecodeWithHeader", .elembits = 64, .bound = b_rle_max, .boundname = "varintRLEMaxSize", .encode = e_rle_hdr, .decode = d_rle_hdr, .decode_cap = c_rle_hdr, .cap_may_refuse = true},
    {.name = "elias.gamma", .encname = "varintEliasGammaEncodeArray", .decname = "varintEliasGammaDecodeArray", .elembits = 64, .domain = DOM_GE1, .bound = b_gamma, .boundname = "varintEliasGammaMaxBytes", .encode = e_gamma, .decode = d_gamma, .decode_cap = c_gamma},
    {.name = "elias.delta", .encname = "varintEliasDeltaEncodeArray", .decname = "varintEliasDeltaDecodeArray", .elembits = 64, .domain = DOM_GE1, .bound = b_edelta, .boundname = "varintEliasDeltaMaxBytes", .encode = e_edelta, .decode = d_edelta, .decode_cap = c_edelta},
    {.name = "bp128.32", .encname = "varintBP128Encode32", .decname = "varintBP128Decode32", .elembits = 32, .bound = b_bp, .boundname = "varintBP128MaxBytes", .encode = e_bp32, .decode = d_bp32, .decode_cap = c_bp32},
    {.name = "bp128.64", .encname = "varintBP128Encode64", .decname = "varintBP128Decode64", .elembits = 64, .bound = b_bp, .boundname = "varintBP128MaxBytes", .encode = e_bp64, .decode = d_bp64, .decode_cap = c_bp64},
    {.name = "bp128.delta32", .encname = "varintBP128DeltaEncode32", .decname = "varintBP128DeltaDecode32", .elembits = 32, .domain = DOM_SORTED, .bound = b_bp, .boundname = "varintBP128MaxBytes", .encode = e_bpd32, .decode = d_bpd32, .decode_cap = c_bpd32},
    {.name = "bp128.delta64", .encname = "varintBP128DeltaEncode64", .decname = "varintBP128DeltaDecode64", .elembits = 64, .domain = DOM_SORTED, .bound = b_bp, .boundname = "varintBP128MaxBytes", .encode = e_bpd64, .decode = d_bpd64, .decode_cap = c_bpd64},
    /* adaptive: automatic and forced (index of first adaptive entry = ADAPTIVE_FIRST) */
    {.name = "adaptive.auto", .encname = "varintAdaptiveEncode", .decname = "varintAdaptiveDecode", .elembits = 64, .domain = DOM_DICT, .maxlen = 200000, .bound = b_adaptive, .boundname = "varintAdaptiveMaxSize", .encode = e_ad_auto, .decode = d_adaptive, .decode_cap = c_adaptive, .param = -1},
    {.name = "adaptive.DELTA", .encname = "varintAdaptiveEncodeWith(DELTA)", .decname = "varintAdaptiveDecode(DELTA)", .elembits = 64, .bound = b_adaptive, .boundname = "varintAdaptiveMaxSize", .encode = e_ad_delta, .decode = d_adaptive, .decode_cap = c_adaptive, .param = VARINT_ADAPTIVE_DELTA},
    {.name = "adaptive.FOR", .encname = "varintAdaptiveEncodeWith(FOR)", .decname = "varintAdaptiveDecode(FOR)", .elembits = 64, .bound = b_adaptive, .boundname = "varintAdaptiveMaxSize", .encode = e_ad_for, .decode = d_adaptive, .decode_cap = c_adaptive, .cap_may_refuse = true, .param = VARINT_ADAPTIVE_FOR},
    {.name = "adaptive.PFOR", .encname = "varintAdaptiveEncodeWith(PFOR)", .decname = "varintAdaptiveDecode(PFOR)", .elembits = 64, .bound = b_adaptive, .boundname = "varintAdaptiveMaxSize", .encode = e_ad_pfor, .decode = d_adaptive, .decode_cap = c_adaptive, .cap_may_refuse = true, .param = VARINT_ADAPTIVE_PFOR},
    {.name = "adaptive.DICT", .encname = "varintAdaptiveEncodeWith(DICT)", .decname = "varintAdaptiveDecode(DICT)", .elembits = 64, .domain = DOM_DICT, .bound = b_adaptive, .boundname = "varintAdaptiveMaxSize", .encode = e_ad_dict, .decode = d_adaptive, .decode_cap = c_adaptive, .cap_may_refuse = true, .param = VARINT_ADAPTIVE_DICT},
    {.name = "adaptive.BITMAP", .encname = "varintAdaptiveEncodeWith(BITMAP)", .decname = "varintAdaptiveDecode(BITMAP)", .elembits = 64, .domain = DOM_STRICT16, .maxlen = 60000, .bound = b_adaptive, .boundname = "varintAdaptiveMaxSize", .encode = e_ad_bitmap, .decode = d_adaptive, .decode_cap = c_adaptive, .param = VARINT_ADAPTIVE_BITMAP},
    {.name = "adaptive.TAGGED", .encname = "varintAdaptiveEncodeWith(TAGGED)", .decname = "varintAdaptiveDecode(TAGGED)", .elembits = 64, .bound = b_adaptive, .boundname = "varintAdaptiveMaxSize", .encode = e_ad_tagged, .decode = d_adaptive, .decode_cap = c_adaptive, .param = VARINT_ADAPTIVE_TAGGED},
};
#define NCODECS (sizeof(CODECS) / sizeof(CODECS[0]))
static int codec_is_adaptive(const codec_t *c) { return !strncmp(c->name, "adaptive", 8); }

/* ----------------------------------------------------- domain shaping */
static int cmp_u64(const void *a, const void *b) {
    uint64_t x = *(const uint64_t *)a, y = *(const uint64_t *)b;
    return (x > y) - (x < y);
}
/* generous upper bound on the encoded size used for c02/c13/c16 scratch
 * destinations (NOT the advertised bound, which is C03's subject) */
static size_t scratch_size(size_t n) { return 64 + n * 24 + 9000; }

/* make a[0..n) a member of codec c's input domain; returns the (possibly reduced) n */
static size_t shape_domain(const codec_t *c, rng_t *r, uint64_t *a, size_t n, int model) {
    if (c->maxlen && n > c->maxlen) n = c->maxlen;
    if (c->elembits == 32) {
        for (size_t i = 0; i < n; i++) a[i] &= 0xffffffffULL;
    }
    switch (c->domain) {
    case DOM_SIGNED_DELTA: /* consecutive differences representable in int64 */
        for (size_t i = 1; i < n; i++) {
            __int128 d = (__int128)(int64_t)a[i] - (__int128)(int64_t)a[i - 1];
            if (d > INT64_MAX || d < INT64_MIN) a[i] = (uint64_t)((int64_t)a[i] / 2);
        }
        for (size_t i = 1; i < n; i++) { /* second pass in case halving was not enough */
            __int128 d = (__int128)(int64_t)a[i] - (__int128)(int64_t)a[i - 1];
            if (d > INT64_MAX || d < INT64_MIN) a[i] = a[i - 1];
        }
        break;
    case DOM_GE1:
        for (size_t i = 0; i < n; i++) if (a[i] == 0) a[i] = 1;
        break;
    case DOM_SORTED:
        (void)model;
        for (size_t i = 1; i < n; i++) {
            if (a[i] < a[i - 1]) {
                qsort(a, n, 8, cmp_u64);
                break;
            }
        }
        break;
    case DOM_GROUP:
        if (n > 64) n = 1 + n % 64;
        break;
    case DOM_STRICT16: {
        if (n > 60000) n = 60000;
        /* strictly increasing values below 65536 */
        uint64_t v = rng_below(r, 50);
        uint64_t room = 65535 - v;
        for (size_t i = 0; i < n; i++) {
            size_t left = n - i;
            uint64_t maxstep = room / left;
            uint64_t step = maxstep > 1 ? 1 + rng_below(r, maxstep) : 1;
            if (i) { v += step; room -= step; }
            a[i] = v;
        }
        break;
    }
    case DOM_DICT: { /* at most 2^20 distinct values: only relevant for huge arrays */
        if (n > (1u << 20)) {
            for (size_t i = 1u << 20; i < n; i++) a[i] = a[rng_below(r, 1u << 20)];
        }
        break;
    }
    default:
        break;
    }
    return n ? n : 1;
}
#endif
