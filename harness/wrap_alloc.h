#ifndef VERIF_WRAP_ALLOC_H
#define VERIF_WRAP_ALLOC_H
#include <stddef.h>
#define WA_MAXSITES 256
void wa_arm(unsigned long fail_at);   /* fail_at = 0: count only */
unsigned long wa_disarm(void);         /* returns number of allocation calls while armed */
void wa_pause(void);
void wa_resume(void);
unsigned long wa_live_blocks(void);    /* blocks allocated while armed and not yet freed */
void *wa_last_failed_site(void);
size_t wa_largest_request(void);
void wa_forget_all(void);
void wa_describe_live(char *buf, size_t len, int max);
unsigned wa_failed_sites(void **out);
#endif
