/* drv_dimension.c — C10: dimension headers round-trip, matrix cells are independent. */
#include "common.h"
#include "gen.h"
#include "ref_scalar.h"
#include "varintDimension.h"
#include "varintExternal.h"
#include <math.h>
#include <sys/mman.h>

static uint64_t g_widthpair[9][9];
static uint64_t g_kind[16];
enum { K_BIT, K_U1, K_U2, K_U3, K_U4, K_U5, K_U6, K_U7, K_U8, K_FLOAT, K_DOUBLE, K_HALF, K_N };
static const char *const KNAME[K_N] = {"bit", "u1", "u2", "u3", "u4", "u5", "u6", "u7", "u8", "float", "double", "half"};

#define DFAIL(entry, cls, ...)                                                                                         \
    do {                                                                                                               \
        char _k[200];                                                                                                  \
        snprintf(_k, sizeof _k, "C10:%s:%s", entry, cls);                                                              \
        viol(_k, __VA_ARGS__);                                                                                         \
    } while (0)

static uint64_t value_of_width(rng_t *r, int w) {
    if (w == 0) return 0;
    uint64_t lo = w == 1 ? 1 : (1ULL << (8 * (w - 1)));
    uint64_t hi = w == 8 ? UINT64_MAX : ((1ULL << (8 * w)) - 1);
    switch (rng_below(r, 4)) {
    case 0: return lo;
    case 1: return hi;
    case 2: return lo + rng_below(r, 3);
    default: return lo + rng_next(r) % (hi - lo + 1);
    }
}

/* ------------------------------------------------------------ pack/unpack */
static void pack_case(rng_t *r) {
    uint64_t row, col;
    switch (rng_below(r, 4)) {
    case 0: { /* nibble boundaries */
        unsigned k = 1 + (unsigned)rng_below(r, 8);
        uint64_t b = k == 8 ? 0xffffffffULL : ((1ULL << (4 * k)) - 1);
        row = b + rng_below(r, 3) - 1;
        col = rng_chance(r, 1, 2) ? rng_below(r, b + 1) : b;
        break;
    }
    case 1: row = gen_upto_bits(r, (unsigned)rng_below(r, 33)); col = gen_upto_bits(r, (unsigned)rng_below(r, 33)); break;
    case 2: row = rng_below(r, 20); col = rng_below(r, 20); break;
    default: row = gen_value(r); col = gen_value(r); break;
    }
    if (rng_chance(r, 1, 2)) { uint64_t t = row; row = col; col = t; }
    uint64_t packed = 0x1234;
    varintDimensionPacked dim = 0;
    g_ctx = "varintDimensionPack";
    bool ok = varintDimensionPack((size_t)row, (size_t)col, &packed, &dim);
    bool supported = row <= 0xffffffffULL && col <= 0xffffffffULL;
    if (ok != supported) {
        DFAIL("varintDimensionPack", ok ? "accepted-unsupported-pair" : "refused-supported-pair", "rows=%" PRIu64 " cols=%" PRIu64, row, col);
        return;
    }
    if (!ok) {
        STAT_INC("c10_pack_refusals");
        return;
    }
    if (dim < 1 || dim > 8) {
        DFAIL("varintDimensionPack", "dimension-out-of-range", "rows=%" PRIu64 " cols=%" PRIu64 " dimension %d", row, col, (int)dim);
        return;
    }
    size_t r2 = 99, c2 = 99;
    g_ctx = "varintDimensionUnpack";
    varintDimensionUnpack(&r2, &c2, packed, dim);
    uint64_t r3, c3;
    varintDimensionUnpack_(r3, c3, packed, dim);
    { /* the macro form with receivers of other integer types wide enough for a coordinate (every coordinate is < 2^32) */
        uint32_t r32, c32;
        varintDimensionUnpack_(r32, c32, packed, dim);
        int64_t rs, cs;
        varintDimensionUnpack_(rs, cs, packed, dim);
        if (r32 != row || c32 != col || (uint64_t)rs != row || (uint64_t)cs != col) {
            DFAIL("varintDimensionUnpack_", "pair-differs-from-packed", "rows=%" PRIu64 " cols=%" PRIu64 " dimension %d: uint32_t receivers (%u,%u), int64_t receivers (%" PRId64 ",%" PRId64 ")", row, col, (int)dim, r32, c32, rs, cs);
        }
    }
    if (r2 != row || c2 != col || r3 != row || c3 != col) {
        DFAIL("varintDimensionUnpack", "pair-differs-from-packed", "rows=%" PRIu64 " cols=%" PRIu64 " dimension %d packed %" PRIx64 " -> (%zu,%zu) macro (%" PRIu64 ",%" PRIu64 ")", row, col, (int)dim, packed, r2, c2, r3, c3);
    }
    if (want_sample()) sample("{\"pack\":[%" PRIu64 ",%" PRIu64 "],\"dimension\":%d,\"packed\":\"%" PRIx64 "\"}", row, col, (int)dim, packed);
    STAT_INC("c10_pack_roundtrips");
}

/* ---------------------------------------------------------------- headers */
static void header_case(uint64_t g, rng_t *r) {
    int wr = (int)(g % 9), wc = 1 + (int)((g / 9) % 8);
    uint64_t rows = value_of_width(r, wr), cols = value_of_width(r, wc);
    gbuf_t gb;
    gbuf_alloc(&gb, (size_t)(wr + wc), 32, (uint8_t)(wr * 16 + wc));
    memset(gb.p, 0xEE, (size_t)(wr + wc));
    g_ctx = "varintDimensionPairEncode";
    snprintf(g_sub, sizeof g_sub, "rows=%" PRIu64 " cols=%" PRIu64 " widths %d/%d", rows, cols, wr, wc);
    varintDimensionPair d = varintDimensionPairEncode(gb.p, (size_t)rows, (size_t)cols);
    g_sub[0] = 0;
    varintDimensionPair d2 = varintDimensionPairDimension((size_t)rows, (size_t)cols);
    int mr = (int)VARINT_DIMENSION_PAIR_WIDTH_ROW_COUNT(d), mc = (int)VARINT_DIMENSION_PAIR_WIDTH_COL_COUNT(d), ml = (int)VARINT_DIMENSION_PAIR_BYTE_LENGTH(d);
    if (d != d2) DFAIL("varintDimensionPairDimension", "differs-from-encode", "rows=%" PRIu64 " cols=%" PRIu64 " %d vs %d", rows, cols, (int)d, (int)d2);
    if (mr != wr) DFAIL("VARINT_DIMENSION_PAIR_WIDTH_ROW_COUNT", "announced-width-wrong", "rows=%" PRIu64 " needs %d bytes, macro says %d (dimension 0x%x)", rows, wr, mr, (unsigned)d);
    if (mc != wc) DFAIL("VARINT_DIMENSION_PAIR_WIDTH_COL_COUNT", "announced-width-wrong", "cols=%" PRIu64 " needs %d bytes, macro says %d (dimension 0x%x)", cols, wc, mc, (unsigned)d);
    if (ml != wr + wc) DFAIL("VARINT_DIMENSION_PAIR_BYTE_LENGTH", "announced-length-wrong", "widths %d+%d, macro says %d", wr, wc, ml);
    if (VARINT_DIMENSION_PAIR_IS_SPARSE(d)) DFAIL("VARINT_DIMENSION_PAIR_IS_SPARSE", "dense-header-reported-sparse", "dimension 0x%x", (unsigned)d);
    if (gbuf_check(&gb) != -1) DFAIL("varintDimensionPairEncode", "wrote-beyond-announced-header", "widths %d/%d", wr, wc);
    uint8_t want[16];
    ref_le(want, rows, wr);
    ref_le(want + wr, cols, wc);
    if (memcmp(want, gb.p, (size_t)(wr + wc))) DFAIL("varintDimensionPairEncode", "header-bytes-wrong", "rows=%" PRIu64 " cols=%" PRIu64 " got %s want %s", rows, cols, hexs(gb.p, (size_t)(wr + wc)), hexs(want, (size_t)(wr + wc)));
    /* decode through the public reader at the announced widths */
    uint64_t rr = mr ? varintExternalGet(gb.p, (varintWidth)wr) : 0;
    uint64_t cc = varintExternalGet(gb.p + wr, (varintWidth)wc);
    if (rr != rows || cc != cols) DFAIL("varintDimensionPairEncode", "header-does-not-decode-to-pair", "rows=%" PRIu64 " cols=%" PRIu64 " decoded (%" PRIu64 ",%" PRIu64 ")", rows, cols, rr, cc);
    g_widthpair[wr][wc]++;
    STAT_INC("c10_headers");
    gbuf_free(&gb);
}

/* ----------------------------------------------------------------- matrices */
static float half_to_float(uint16_t h) {
    unsigned s = h >> 15, e = (h >> 10) & 31, m = h & 1023;
    float f;
    if (e == 0) f = ldexpf((float)m, -24);
    else if (e == 31) f = m ? NAN : INFINITY;
    else f = ldexpf((float)(m | 1024), (int)e - 25);
    return s ? -f : f;
}
static int kind_width(int k) {
    if (k >= K_U1 && k <= K_U8) return k - K_U1 + 1;
    if (k == K_FLOAT) return 4;
    if (k == K_DOUBLE) return 8;
    if (k == K_HALF) return 2;
    return 0;
}
static void matrix_case(rng_t *r) {
    size_t rows, cols;
    switch (rng_below(r, 8)) {
    case 0: rows = 0; cols = 1 + rng_below(r, 600); break; /* vector */
    case 1: rows = 1; cols = 1; break;
    case 2: rows = 1; cols = 1 + rng_below(r, 300); break;
    case 3: rows = 1 + rng_below(r, 300); cols = 1; break;
    case 4: rows = 3; cols = 256 + rng_below(r, 100); break;   /* 2-byte column count */
    case 5: rows = 2; cols = 65536 + rng_below(r, 5000); break; /* 3-byte column count */
    case 6: rows = 256 + rng_below(r, 50); cols = 1 + rng_below(r, 5); break; /* 2-byte row count */
    default: rows = 1 + rng_below(r, 40); cols = 1 + rng_below(r, 40); break;
    }
    int k = (int)rng_below(r, K_N);
#ifndef __F16C__
    if (k == K_HALF) k = K_U2;
#endif
    size_t nrows = rows ? rows : 1;
    size_t ncells = nrows * cols;
    int w = kind_width(k);
    if (k != K_BIT && ncells * (size_t)w > (4u << 20)) k = K_BIT;
    w = kind_width(k);
    uint8_t hdr[16];
    varintDimensionPair d = varintDimensionPairEncode(hdr, rows, cols);
    int wr = ref_bytes_needed(rows), wc = ref_bytes_needed(cols);
    if (!rows) wr = 0;
    size_t hl = (size_t)(wr + wc);
    size_t body = k == K_BIT ? (ncells + 7) / 8 : ncells * (size_t)w;
    size_t total = hl + body;
    gbuf_t gb;
    gbuf_alloc(&gb, total, 64, (uint8_t)(total * 7 + 3));
    memcpy(gb.p, hdr, hl);
    rng_fill(r, gb.p + hl, body);
    uint8_t *expect = malloc(total);
    int nwrites = 100 + (int)rng_below(r, 400);
    g_kind[k]++;
    if (rows >= 2 && rng_chance(r, 1, 3)) {
        /* history: the same buffer previously held another matrix of the same header width class but a different
         * column count (accessed at row > 0), and was then overwritten byte-wise (as when loading a saved matrix) */
        size_t cols2 = cols - 1; /* never larger: the previous matrix must fit the same buffer */
        if (cols2 >= 1 && ref_bytes_needed(cols2) == ref_bytes_needed(cols)) {
            uint8_t *saved = malloc(total);
            memcpy(saved, gb.p, total);
            varintDimensionPair d2 = varintDimensionPairEncode(gb.p, rows, cols2);
            g_ctx = "previous-matrix-in-same-buffer";
            if (k == K_BIT) {
                (void)varintDimensionPairEntryGetBit(gb.p, 1, 0, d2);
            } else if (k == K_FLOAT) {
                (void)varintDimensionPairEntryGetFloat(gb.p, 1, 0, d2);
            } else if (k == K_DOUBLE) {
                (void)varintDimensionPairEntryGetDouble(gb.p, 1, 0, d2);
            } else if (k != K_HALF) {
                (void)varintDimensionPairEntryGetUnsigned(gb.p, 1, 0, (varintWidth)w, d2);
                varintDimensionPairEntrySetUnsigned(gb.p, rows - 1, 0, 1, (varintWidth)w, d2);
            }
            memcpy(gb.p, saved, total); /* header and cells replaced without going through Encode */
            free(saved);
            STAT_INC("c10_buffer_reuse_histories");
        }
    }
    for (int t = 0; t < nwrites; t++) {
        size_t row, col;
        switch (rng_below(r, 6)) {
        case 0: row = 0; col = 0; break;
        case 1: row = nrows - 1; col = cols - 1; break;
        case 2: row = 0; col = cols - 1; break;
        case 3: row = nrows - 1; col = 0; break;
        default: row = rng_below(r, nrows); col = rng_below(r, cols); break;
        }
        if (!rows) row = 0;
        size_t cell = row * cols + col;
        memcpy(expect, gb.p, total);
        snprintf(g_sub, sizeof g_sub, "kind=%s rows=%zu cols=%zu cell=(%zu,%zu) dimension=0x%x", KNAME[k], rows, cols, row, col, (unsigned)d);
        const char *entry = "";
        bool readback_ok = true;
        if (k == K_BIT) {
            size_t byte = hl + cell / 8;
            unsigned bit = (unsigned)(cell % 8);
            bool old = (gb.p[byte] >> bit) & 1;
            int what = (int)rng_below(r, 3);
            if (what == 0) {
                bool v = rng_chance(r, 1, 2);
                entry = "varintDimensionPairEntrySetBit";
                g_ctx = entry;
                expect[byte] = (uint8_t)((expect[byte] & ~(1u << bit)) | ((unsigned)v << bit));
                if (v && rng_chance(r, 1, 2)) {
                    /* the usual C idiom: a truth value that is not 1 (flags & mask) */
                    static const unsigned truthy[] = {2, 4, 8, 0x10, 0x40, 0x80, 0x100, 0x8000, 0x10000, 0x80000000u, 3, 0xfe, 0xffffff00u};
                    unsigned word = truthy[rng_below(r, sizeof truthy / sizeof truthy[0])];
                    varintDimensionPairEntrySetBit(gb.p, row, col, word & ~0u, d);
                    STAT_INC("c10_set_bit_with_truth_value_other_than_1");
                } else
                varintDimensionPairEntrySetBit(gb.p, row, col, v, d);
                readback_ok = varintDimensionPairEntryGetBit(gb.p, row, col, d) == v;
                if (old && !v) STAT_INC("c10_bit_cleared_by_set_false");
            } else {
                entry = "varintDimensionPairEntryToggleBit";
                g_ctx = entry;
                expect[byte] ^= (uint8_t)(1u << bit);
                bool prev = varintDimensionPairEntryToggleBit(gb.p, row, col, d);
                if (prev != old) {
                    DFAIL(entry, "did-not-return-previous-value", "%s returned %d, bit was %d", g_sub, prev, old);
                    break;
                }
                readback_ok = varintDimensionPairEntryGetBit(gb.p, row, col, d) == !old;
                STAT_INC(old ? "c10_toggle_1_to_0" : "c10_toggle_0_to_1");
            }
        } else if (k <= K_U8) {
            uint64_t v = gen_value(r);
            uint64_t given = v;
            if (w < 8) v &= (1ULL << (8 * w)) - 1;
            if (w < 8 && rng_chance(r, 1, 4)) {
                /* a value with bits above the entry width (a negative number stored by plain conversion): the cell keeps
                 * the low bytes, and no other cell may change */
                given = v | (rng_chance(r, 1, 2) ? ~((1ULL << (8 * w)) - 1) : (gen_value(r) << (8 * w)));
                STAT_INC("c10_unsigned_writes_with_bits_above_the_entry_width");
            } else {
                given = v;
            }
            entry = "varintDimensionPairEntrySetUnsigned";
            g_ctx = entry;
            ref_le(expect + hl + cell * (size_t)w, v, w);
            varintDimensionPairEntrySetUnsigned(gb.p, row, col, given, (varintWidth)w, d);
            readback_ok = varintDimensionPairEntryGetUnsigned(gb.p, row, col, (varintWidth)w, d) == v;
        } else if (k == K_FLOAT) {
            uint32_t bits = (uint32_t)rng_next(r);
            float f;
            memcpy(&f, &bits, 4);
            entry = "varintDimensionPairEntrySetFloat";
            g_ctx = entry;
            memcpy(expect + hl + cell * 4, &bits, 4);
            varintDimensionPairEntrySetFloat(gb.p, row, col, f, d);
            float back = varintDimensionPairEntryGetFloat(gb.p, row, col, d);
            uint32_t bb;
            memcpy(&bb, &back, 4);
            readback_ok = bb == bits || (isnan(f) && isnan(back));
        } else if (k == K_DOUBLE) {
            uint64_t bits = rng_next(r);
            double f = dbl_from_bits(bits);
            entry = "varintDimensionPairEntrySetDouble";
            g_ctx = entry;
            memcpy(expect + hl + cell * 8, &bits, 8);
            varintDimensionPairEntrySetDouble(gb.p, row, col, f, d);
            double back = varintDimensionPairEntryGetDouble(gb.p, row, col, d);
            readback_ok = dbl_bits(back) == bits || (isnan(f) && isnan(back));
        } else {
#ifdef __F16C__
            uint16_t h;
            do {
                h = (uint16_t)rng_next(r);
            } while (((h >> 10) & 31) == 31 && (h & 1023)); /* no NaN halves */
            float f = half_to_float(h);
            entry = "varintDimensionPairEntrySetFloatHalf";
            g_ctx = entry;
            memcpy(expect + hl + cell * 2, &h, 2);
            varintDimensionPairEntrySetFloatHalf(gb.p, row, col, f, d);
            float back = varintDimensionPairEntryGetFloatHalf(gb.p, row, col, d);
            readback_ok = back == f || (f == 0 && back == 0);
#endif
        }
        if (!readback_ok) {
            DFAIL(entry, "read-back-differs-from-written", "%s", g_sub);
            break;
        }
        if (memcmp(expect, gb.p, total)) {
            size_t bad = 0;
            while (expect[bad] == gb.p[bad]) bad++;
            DFAIL(entry, bad < hl ? "changed-header-byte" : "changed-other-cell", "%s: byte %zu is %02x expected %02x (header %zu bytes, cell byte offset %zu)", g_sub, bad, gb.p[bad], expect[bad], hl, k == K_BIT ? hl + cell / 8 : hl + cell * (size_t)w);
            break;
        }
        if (gbuf_check(&gb) != -1) {
            DFAIL(entry, "wrote-outside-matrix", "%s", g_sub);
            break;
        }
        if (row == 0) STAT_INC("c10_writes_row0");
        if (row == nrows - 1 && col == cols - 1) STAT_INC("c10_writes_last_cell");
        STAT_INC("c10_cell_writes");
    }
    /* checkpoint: every cell readable at its documented position */
    if (k >= K_U1 && k <= K_U8 && ncells <= 4096) {
        for (size_t c = 0; c < ncells; c++) {
            uint64_t want = 0;
            memcpy(&want, gb.p + hl + c * (size_t)w, (size_t)w);
            uint64_t got = varintDimensionPairEntryGetUnsigned(gb.p, rows ? c / cols : 0, c % cols, (varintWidth)w, d);
            if (got != want) {
                DFAIL("varintDimensionPairEntryGetUnsigned", "read-differs-from-documented-layout", "kind=%s rows=%zu cols=%zu cell %zu", KNAME[k], rows, cols, c);
                break;
            }
        }
    }
    g_sub[0] = 0;
    if (want_sample()) sample("{\"matrix\":[%zu,%zu],\"entry\":\"%s\",\"writes\":%d,\"header_bytes\":%zu}", rows, cols, KNAME[k], nwrites, hl);
    STAT_INC("c10_matrices");
    free(expect);
    gbuf_free(&gb);
}

/* column widths 5..8: a lazily mapped bit vector of more than 2^32 columns */
static void wide_bit_vector_case(rng_t *r) {
    size_t cols = (1ULL << 32) + rng_below(r, 1ULL << 31);
    if (rng_chance(r, 1, 2)) cols = (1ULL << 35) + rng_below(r, 1ULL << 35); /* more than 4 GiB of bits */
    size_t hl = (size_t)ref_bytes_needed(cols);
    size_t total = hl + (cols + 7) / 8;
    uint8_t *m = mmap(NULL, total, PROT_READ | PROT_WRITE, MAP_PRIVATE | MAP_ANONYMOUS | MAP_NORESERVE, -1, 0);
    if (m == MAP_FAILED) {
        STAT_INC("c10_wide_vector_skipped_mmap_failed");
        return;
    }
    varintDimensionPair d = varintDimensionPairEncode(m, 0, cols);
    for (int t = 0; t < 40; t++) {
        size_t col = t == 0 ? 0 : t == 1 ? cols - 1 : rng_below(r, cols);
        size_t byte = hl + col / 8;
        unsigned bit = (unsigned)(col % 8);
        snprintf(g_sub, sizeof g_sub, "wide bit vector cols=%zu col=%zu dimension=0x%x", cols, col, (unsigned)d);
        g_ctx = "varintDimensionPairEntrySetBit";
        uint8_t before[3] = {byte ? m[byte - 1] : 0, m[byte], m[byte + 1 < total ? byte + 1 : byte]};
        varintDimensionPairEntrySetBit(m, 0, col, true, d);
        bool ok = ((m[byte] >> bit) & 1) && varintDimensionPairEntryGetBit(m, 0, col, d) && (!byte || m[byte - 1] == before[0]) && (m[byte] & ~(1u << bit)) == (before[1] & ~(1u << bit));
        uint8_t h2[16];
        ref_le(h2, cols, (int)hl);
        if (!ok || memcmp(h2, m, hl)) {
            DFAIL("varintDimensionPairEntrySetBit", memcmp(h2, m, hl) ? "changed-header-byte" : "read-back-differs-from-written", "%s", g_sub);
            break;
        }
        varintDimensionPairEntrySetBit(m, 0, col, false, d);
        if ((m[byte] >> bit) & 1) {
            DFAIL("varintDimensionPairEntrySetBit", "read-back-differs-from-written", "%s (set false)", g_sub);
            break;
        }
        g_ctx = "varintDimensionPairEntryToggleBit";
        bool prev = varintDimensionPairEntryToggleBit(m, 0, col, d);
        if (prev || !((m[byte] >> bit) & 1) || !varintDimensionPairEntryGetBit(m, 0, col, d) || memcmp(h2, m, hl)) {
            DFAIL("varintDimensionPairEntryToggleBit", memcmp(h2, m, hl) ? "changed-header-byte" : "read-back-differs-from-written", "%s (toggle)", g_sub);
            break;
        }
        varintDimensionPairEntryToggleBit(m, 0, col, d);
        if (col / 8 > 0xffffffffULL) STAT_INC("c10_wide_vector_writes_beyond_4GiB");
        STAT_INC("c10_wide_vector_writes");
    }
    g_sub[0] = 0;
    munmap(m, total);
}

/* boolean matrices of more than 2^32 cells whose row and column counts each fit 4 header bytes: cell (row, col) is bit
 * row*cols + col; the product needs 64 bits.  Lazily mapped, only the touched pages exist. */
static void big_bit_matrix_case(rng_t *r) {
    size_t cols, rows;
    switch (rng_below(r, 4)) {
    case 0: cols = 50000 + rng_below(r, 200000); break;              /* 3-byte column count */
    case 1: cols = 300 + rng_below(r, 60000); break;                 /* 2-byte column count */
    case 2: cols = (1u << 24) + rng_below(r, 1u << 26); break;       /* 4-byte column count */
    default: cols = 65535 + rng_below(r, 3); break;
    }
    uint64_t cells = (1ULL << 32) + rng_below(r, 3ULL << 32);
    rows = (size_t)(cells / cols) + 2;
    if (rows > 0xffffffffULL) rows = 0xffffffffULL;
    int wr = ref_bytes_needed(rows), wc = ref_bytes_needed(cols);
    size_t hl = (size_t)(wr + wc);
    size_t total = hl + (size_t)(((uint64_t)rows * cols + 7) / 8) + 8;
    uint8_t *m = mmap(NULL, total, PROT_READ | PROT_WRITE, MAP_PRIVATE | MAP_ANONYMOUS | MAP_NORESERVE, -1, 0);
    if (m == MAP_FAILED) {
        STAT_INC("c10_big_bit_matrix_skipped_mmap_failed");
        return;
    }
    varintDimensionPair d = varintDimensionPairEncode(m, rows, cols);
    uint8_t h2[16];
    ref_le(h2, rows, wr);
    ref_le(h2 + wr, cols, wc);
    for (int t = 0; t < 30; t++) {
        size_t row = t == 0 ? rows - 1 : t == 1 ? (size_t)((1ULL << 32) / cols) + 1 : rng_below(r, rows);
        size_t col = t == 0 ? cols - 1 : rng_below(r, cols);
        uint64_t idx = (uint64_t)row * cols + col;
        size_t byte = hl + (size_t)(idx / 8);
        unsigned bit = (unsigned)(idx % 8);
        /* where a 32-bit product would land */
        uint64_t widx = (uint64_t)(uint32_t)((uint32_t)row * (uint32_t)cols) + col;
        size_t wbyte = hl + (size_t)(widx / 8);
        snprintf(g_sub, sizeof g_sub, "big bit matrix %zux%zu cell (%zu,%zu) dimension=0x%x", rows, cols, row, col, (unsigned)d);
        uint8_t wbefore = m[wbyte], before = m[byte];
        g_ctx = "varintDimensionPairEntrySetBit";
        varintDimensionPairEntrySetBit(m, row, col, true, d);
        bool ok = ((m[byte] >> bit) & 1) && (m[byte] & ~(1u << bit)) == (before & ~(1u << bit)) && (wbyte == byte || m[wbyte] == wbefore);
        g_ctx = "varintDimensionPairEntryGetBit";
        ok = ok && varintDimensionPairEntryGetBit(m, row, col, d);
        if (!ok || memcmp(h2, m, hl)) {
            DFAIL("varintDimensionPairEntrySetBit", memcmp(h2, m, hl) ? "changed-header-byte" : "read-back-differs-from-written", "%s", g_sub);
            break;
        }
        g_ctx = "varintDimensionPairEntryToggleBit";
        bool prev = varintDimensionPairEntryToggleBit(m, row, col, d);
        if (!prev || ((m[byte] >> bit) & 1) || varintDimensionPairEntryGetBit(m, row, col, d) || (wbyte != byte && m[wbyte] != wbefore)) {
            DFAIL("varintDimensionPairEntryToggleBit", "read-back-differs-from-written", "%s (toggle)", g_sub);
            break;
        }
        /* a neighbouring cell written directly in the storage is what Get returns */
        m[byte] |= (uint8_t)(1u << bit);
        if (!varintDimensionPairEntryGetBit(m, row, col, d)) {
            DFAIL("varintDimensionPairEntryGetBit", "read-differs-from-documented-layout", "%s", g_sub);
            break;
        }
        m[byte] = before;
        if (idx >= (1ULL << 32)) STAT_INC("c10_big_bit_matrix_cells_beyond_2^32");
    }
    g_sub[0] = 0;
    munmap(m, total);
    STAT_INC("c10_big_bit_matrices");
}

static void dim_case(uint64_t idx, rng_t *r) {
    uint64_t g = idx * g_nshards + g_shard;
    switch (g % 4) {
    case 0: pack_case(r); break;
    case 1: header_case(g / 4, r); break;
    default: matrix_case(r); break;
    }
    if (g_param[0] && (g % g_param[0]) == 7) wide_bit_vector_case(r);
    if (g_param[0] && (g % g_param[0]) == 11) big_bit_matrix_case(r);
    STAT_INC("distinct_nontrivial");
}

int main(int argc, char **argv) {
    parse_args(argc, argv);
    install_handlers();
    gen_init();
    CASE_LOOP(dim_case);
    uint64_t pairs = 0;
    for (int a = 0; a <= 8; a++)
        for (int b = 1; b <= 8; b++)
            if (g_widthpair[a][b]) pairs++;
    printf("MAX width_pairs_seen_in_a_shard %" PRIu64 "\n", pairs);
    for (int a = 0; a <= 8; a++)
        for (int b = 1; b <= 8; b++) printf("STAT widthpair.%d_%d %" PRIu64 "\n", a, b, g_widthpair[a][b]);
    for (int k = 0; k < K_N; k++) printf("STAT kind.%s %" PRIu64 "\n", KNAME[k], g_kind[k]);
    fflush(stdout);
    return 0;
}
