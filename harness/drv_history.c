/* drv_history.c — C15: results depend only on the arguments.
 * A deterministic list of API calls (call i is a function of (seed, i) only) is executed in
 * different "worlds"; the per-call result digests must be identical in every world and in
 * every build configuration.
 *   --p0 world:  0 identity order, fresh process
 *                1 shuffled order
 *                2 each call preceded by 1-3 other library calls
 *                3/4/5 stack painted with 0x00 / 0xFF / 0xA5 before every library call
 *                6 stack painted with the 8-byte value `count` of the upcoming call
 *                7 heap residue: freed blocks of the sizes the library uses, filled with `count`
 *                8 heap residue: mallopt(M_PERTURB) + destination buffers pre-filled with 0xFF
 *                9 buffer reuse: the same call is first made on a look-alike input (same addresses, same
 *                  count, same first and last element, different interior) placed in the very same buffers
 *   --p1 1: print one CALLDIG line per call (used by the orchestrator to name a diverging call)
 */
#include "codecs.h"
#include "varintFloat.h"
#include <malloc.h>
#if VERIF_MSAN
#include <sanitizer/msan_interface.h>
#define CHECK_INIT(p, n) __msan_check_mem_is_initialized((p), (n))
#else
#define CHECK_INIT(p, n) ((void)0)
#endif

static int WORLD = 0;
static uint64_t g_paintval = 0;

/* fill ~48 KiB of stack below the caller's frame */
static NOINLINE void paint_stack_impl(int mode, uint64_t val) {
    volatile uint64_t area[6144];
    uint64_t v = mode == 3 ? 0 : mode == 4 ? ~0ULL : mode == 5 ? 0xA5A5A5A5A5A5A5A5ULL : val;
    for (size_t i = 0; i < 6144; i++) area[i] = v;
    __asm__ volatile("" ::"r"(area) : "memory");
}
static inline void PAINT(void) {
    if (WORLD >= 3 && WORLD <= 6) paint_stack_impl(WORLD, g_paintval);
}
static void heap_residue(uint64_t val) {
    static const size_t sizes[] = {16, 24, 32, 48, 64, 72, 80, 128, 256, 512, 1024, 2048, 4096, 8192, 8200, 16384, 32768, 65536};
    void *p[18 * 3];
    int k = 0;
    for (int rep = 0; rep < 3; rep++) {
        for (size_t i = 0; i < 18; i++) {
            size_t n = sizes[i];
            uint64_t *b = malloc(n);
            for (size_t j = 0; j < n / 8; j++) b[j] = val;
            p[k++] = b;
        }
    }
    while (k) free(p[--k]);
}
static uint8_t *dst_alloc(size_t n) {
    uint8_t *d = malloc(n);
    memset(d, WORLD == 8 ? 0xFF : WORLD == 7 ? 0x5C : 0x00, n);
    return d;
}

#define NEXTRA 14
#define NKINDS (NCODECS + NEXTRA)

static void dig_stats(digest_t *d, const varintAdaptiveDataStats *s) {
    digest_u64(d, s->count); digest_u64(d, s->minValue); digest_u64(d, s->maxValue); digest_u64(d, s->range);
    digest_u64(d, s->uniqueCount); digest_u64(d, s->avgDelta); digest_u64(d, s->maxDelta); digest_u64(d, s->outlierCount);
    uint32_t a, b;
    memcpy(&a, &s->uniqueRatio, 4); memcpy(&b, &s->outlierRatio, 4);
    digest_u64(d, a); digest_u64(d, b);
    digest_u64(d, (uint64_t)s->isSorted | (uint64_t)s->isReverseSorted << 1 | (uint64_t)s->fitsInBitmapRange << 2);
}

/* execute call number `ci`; everything about it derives from (g_seed, ci) */
static uint64_t do_call(uint64_t ci) {
    rng_t rr;
    rng_seed(&rr, mix3(g_seed, 0xC15, ci));
    rng_t *r = &rr;
    digest_t d;
    digest_init(&d);
    unsigned kind = (unsigned)(ci % NKINDS);
    if (kind < NCODECS) {
        const codec_t *c = &CODECS[kind];
        size_t n = gen_len(r, 300);
        if (rng_chance(r, 1, 200) && codec_is_adaptive(c)) n = 10001 + rng_below(r, 300);
        if (c->param == -1 && codec_is_adaptive(c) && rng_chance(r, 1, 12)) {
            /* the automatic selector's sampled analysis (> 10000 elements): counts that are and are not multiples of
             * the sampling stride, and well past the threshold */
            n = rng_chance(r, 1, 2) ? 10001 + rng_below(r, 3000) : 20000 + rng_below(r, 9000);
            STAT_INC("c15_sampled_analysis_calls");
        }
        int model = (int)rng_below(r, AM_NMODELS);
        uint64_t *a = malloc((n + 1) * 8);
        gen_array_model(r, model, a, n, (unsigned)c->elembits);
        n = shape_domain(c, r, a, n, model);
        g_paintval = n;
        if (WORLD == 7) heap_residue(n);
        uint8_t *dst = dst_alloc(scratch_size(n));
        encinfo_t info;
        memset(&info, 0, sizeof info);
        g_ctx = c->encname;
        snprintf(g_sub, sizeof g_sub, "call %" PRIu64 " codec=%s n=%zu model=%s world=%d", ci, c->name, n, AM_NAMES[model], WORLD);
        if (WORLD == 9 && n >= 3 && c->domain != DOM_STRICT16) {
            /* look-alike decoy in the same buffers: same count, first and last element */
            uint64_t *real = malloc(n * 8);
            memcpy(real, a, n * 8);
            /* a true permutation of the interior where the domain allows it (same multiset, other order) */
            for (size_t i = 1; i + 1 < n; i++) a[i] = (c->domain == DOM_SORTED || c->domain == DOM_SIGNED_DELTA) ? real[0] : real[n - 1 - i];
            if (c->domain == DOM_SIGNED_DELTA) a[n - 1] = a[0];
            encinfo_t dinfo;
            memset(&dinfo, 0, sizeof dinfo);
            size_t dret = c->encode(dst, a, n, &dinfo);
            if (dret && dret <= scratch_size(n)) {
                uint64_t *dout = malloc((n + 1) * 8);
                c->decode(dst, dret, &dinfo, dout, n);
                if (c->getat) {
                    uint64_t v;
                    c->getat(dst, dret, &dinfo, n, n / 2, &v);
                }
                free(dout);
            }
            memcpy(a, real, n * 8); /* the real input, edited in place */
            memset(dst, 0, scratch_size(n));
            free(real);
        }
        PAINT();
        size_t ret = c->encode(dst, a, n, &info);
        digest_u64(&d, ret);
        if (ret && ret <= scratch_size(n)) {
            CHECK_INIT(dst, ret);
            digest_bytes(&d, dst, ret);
            uint64_t *out = malloc((n + 1) * 8);
            memset(out, WORLD == 8 ? 0xFF : 0, (n + 1) * 8);
            g_ctx = c->decname;
            PAINT();
            size_t rn = c->decode(dst, ret, &info, out, n);
            digest_u64(&d, rn);
            if (rn == n) {
                CHECK_INIT(out, n * 8);
                digest_bytes(&d, out, n * 8);
            }
            if (c->getat && n) {
                uint64_t v = 0;
                size_t i = rng_below(r, n);
                PAINT();
                c->getat(dst, ret, &info, n, i, &v);
                CHECK_INIT(&v, 8);
                digest_u64(&d, v);
            }
            free(out);
        }
        free(dst);
        free(a);
    } else {
        unsigned e = kind - NCODECS;
        size_t n = gen_len(r, 200);
        uint64_t *a = malloc((n + 1) * 8);
        gen_array_model(r, (int)rng_below(r, AM_NMODELS), a, n, 64);
        g_paintval = n;
        if (WORLD == 7) heap_residue(n);
        snprintf(g_sub, sizeof g_sub, "call %" PRIu64 " extra=%u n=%zu world=%d", ci, e, n, WORLD);
        switch (e) {
        case 0: { /* float encode/decode */
            double *v = malloc(n * 8);
            for (size_t i = 0; i < n; i++) v[i] = dbl_from_bits(a[i]);
            int prec = (int)rng_below(r, 4), mode = (int)rng_below(r, 3);
            uint8_t *dst = dst_alloc(varintFloatMaxEncodedSize(n, prec) + 8);
            g_ctx = "varintFloatEncode";
            PAINT();
            size_t ret = varintFloatEncode(dst, v, n, prec, mode);
            CHECK_INIT(dst, ret);
            digest_bytes(&d, dst, ret);
            double *o = malloc(n * 8);
            g_ctx = "varintFloatDecode";
            PAINT();
            size_t used = varintFloatDecode(dst, n, o);
            CHECK_INIT(o, n * 8);
            digest_u64(&d, used);
            digest_bytes(&d, o, n * 8);
            free(o); free(dst); free(v);
            break;
        }
        case 1: { /* float auto */
            double *v = malloc(n * 8);
            for (size_t i = 0; i < n; i++) v[i] = ldexp(1.0 + (double)(a[i] & 0xffff) / 65536.0, (int)(a[i] >> 58) - 30);
            uint8_t *dst = dst_alloc(varintFloatMaxEncodedSize(n, 0) + 8);
            varintFloatPrecision sel = 0;
            g_ctx = "varintFloatEncodeAuto";
            PAINT();
            double req = ldexp(1.0, -(int)rng_below(r, 40));
            int amode = (int)rng_below(r, 3);
            size_t ret = varintFloatEncodeAuto(dst, v, n, req, amode, &sel);
            CHECK_INIT(dst, ret);
            digest_bytes(&d, dst, ret);
            digest_u64(&d, sel);
            free(dst); free(v);
            break;
        }
        case 2: { /* bitmap: build, set algebra, serialise */
            g_ctx = "varintBitmap*";
            varintBitmap *x = varintBitmapCreate(), *y = varintBitmapCreate();
            for (size_t i = 0; i < n; i++) varintBitmapAdd(i & 1 ? x : y, (uint16_t)a[i]);
            if (a[0] & 1) varintBitmapAddRange(x, (uint16_t)(a[0] >> 8), (uint16_t)((a[0] >> 8) + (a[0] >> 40) % 6000));
            PAINT();
            varintBitmap *z = (a[0] & 2) ? varintBitmapOr(x, y) : varintBitmapXor(x, y);
            uint8_t *dst = dst_alloc(9000);
            PAINT();
            size_t ret = varintBitmapEncode(z, dst);
            CHECK_INIT(dst, ret);
            digest_bytes(&d, dst, ret);
            PAINT();
            varintBitmap *w = varintBitmapDecode(dst, ret);
            digest_u64(&d, w ? varintBitmapCardinality(w) : 99999999);
            uint16_t *arr = malloc(65536 * 2);
            uint32_t cnt = w ? varintBitmapToArray(w, arr) : 0;
            CHECK_INIT(arr, cnt * 2);
            digest_bytes(&d, arr, cnt * 2);
            free(arr); free(dst);
            varintBitmapFree(x); varintBitmapFree(y); varintBitmapFree(z); varintBitmapFree(w);
            break;
        }
        case 3: { /* dictionary statistics */
            varintDictStats st;
            memset(&st, 0, sizeof st);
            g_ctx = "varintDictGetStats";
            PAINT();
            int rc = varintDictGetStats(a, n, &st);
            digest_u64(&d, (uint64_t)rc); digest_u64(&d, st.uniqueCount); digest_u64(&d, st.totalCount); digest_u64(&d, st.dictBytes);
            digest_u64(&d, st.indexBytes); digest_u64(&d, st.totalBytes); digest_u64(&d, st.originalBytes);
            PAINT();
            digest_u64(&d, varintDictEncodedSize(a, n));
            break;
        }
        case 4: { /* adaptive analysis */
            varintAdaptiveDataStats st;
            g_ctx = "varintAdaptiveAnalyze";
            if (WORLD == 9 && n >= 3) {
                uint64_t *real = malloc(n * 8);
                memcpy(real, a, n * 8);
                for (size_t i = 1; i + 1 < n; i++) a[i] = real[n - 1 - i];
                varintAdaptiveAnalyze(a, n, &st);
                uint8_t *dd = malloc(scratch_size(n));
                varintAdaptiveEncode(dd, a, n, NULL);
                free(dd);
                memcpy(a, real, n * 8);
                free(real);
            }
            PAINT();
            varintAdaptiveAnalyze(a, n, &st);
            dig_stats(&d, &st);
            PAINT();
            digest_u64(&d, (uint64_t)varintAdaptiveSelectEncoding(&st));
            PAINT();
            digest_u64(&d, varintAdaptiveCountUnique(a, n));
            break;
        }
        case 5: { /* FOR / PFOR analysis */
            varintFORMeta fm;
            memset(&fm, 0, sizeof fm);
            g_ctx = "varintFORAnalyze";
            PAINT();
            varintFORAnalyze(a, n, &fm);
            digest_u64(&d, fm.minValue); digest_u64(&d, fm.maxValue); digest_u64(&d, fm.range); digest_u64(&d, fm.count); digest_u64(&d, fm.encodedSize); digest_u64(&d, fm.offsetWidth);
            varintFORMeta bm;
            memset(&bm, 0, sizeof bm);
            PAINT();
            varintFORBatchAnalyze(a, n, &bm);
            digest_u64(&d, bm.minValue); digest_u64(&d, bm.maxValue); digest_u64(&d, bm.offsetWidth);
            varintPFORMeta pm;
            memset(&pm, 0, sizeof pm);
            g_ctx = "varintPFORComputeThreshold";
            PAINT();
            varintPFORComputeThreshold(a, (uint32_t)n, 90 + (uint32_t)(a[0] % 10), &pm);
            digest_u64(&d, pm.min); digest_u64(&d, pm.width); digest_u64(&d, pm.exceptionCount); digest_u64(&d, pm.thresholdValue);
            PAINT();
            digest_u64(&d, varintPFORSize(&pm));
            break;
        }
        case 6: { /* RLE analysis */
            varintRLEMeta m;
            memset(&m, 0, sizeof m);
            g_ctx = "varintRLEAnalyze";
            PAINT();
            bool b = varintRLEAnalyze(a, n, &m);
            digest_u64(&d, b); digest_u64(&d, m.count); digest_u64(&d, m.runCount); digest_u64(&d, m.encodedSize); digest_u64(&d, m.uniqueValues);
            PAINT();
            digest_u64(&d, varintRLEIsBeneficial(a, n));
            break;
        }
        case 7: { /* BP128 helpers */
            uint32_t *v32 = to32(a, n);
            g_ctx = "varintBP128*";
            PAINT();
            digest_u64(&d, varintBP128MaxBitWidth32(v32, n));
            PAINT();
            digest_u64(&d, varintBP128MaxBitWidth64(a, n));
            PAINT();
            digest_u64(&d, varintBP128IsBeneficial32(v32, n));
            PAINT();
            digest_u64(&d, varintBP128IsBeneficial64(a, n));
            digest_u64(&d, varintBP128IsSorted64(a, n));
            free(v32);
            break;
        }
        case 8: { /* adaptive forced FOR twice in a row with different counts (the F25 shape) */
            uint8_t *dst = dst_alloc(scratch_size(n));
            varintAdaptiveMeta m;
            memset(&m, 0, sizeof m);
            g_ctx = "varintAdaptiveEncodeWith(FOR)";
            PAINT();
            size_t ret = varintAdaptiveEncodeWith(dst, a, n, VARINT_ADAPTIVE_FOR, &m);
            CHECK_INIT(dst, ret);
            digest_bytes(&d, dst, ret);
            free(dst);
            break;
        }
        case 9: { /* elias single-value writer/reader */
            uint8_t buf[40];
            memset(buf, 0, sizeof buf);
            varintBitWriter bw;
            varintBitWriterInit(&bw, buf, sizeof buf);
            uint64_t v = a[0] ? a[0] : 1;
            g_ctx = "varintEliasDeltaEncode";
            PAINT();
            varintEliasDeltaEncode(&bw, v);
            varintEliasGammaEncode(&bw, (v >> 20) | 1);
            digest_bytes(&d, buf, sizeof buf);
            break;
        }
        case 10: { /* group accessors */
            size_t m = n > 64 ? 64 : n;
            uint8_t *dst = dst_alloc(1 + 16 + 64 * 8 + 8);
            g_ctx = "varintGroupEncode";
            PAINT();
            size_t ret = varintGroupEncode(dst, a, (uint8_t)m);
            CHECK_INIT(dst, ret);
            digest_bytes(&d, dst, ret);
            PAINT();
            digest_u64(&d, varintGroupGetSize(dst));
            free(dst);
            break;
        }
        case 11: { /* dictionary object reuse: Build twice on one object, across index-width classes */
            varintDict *dc = varintDictCreate();
            g_ctx = "varintDictBuild";
            if ((ci / NKINDS) % 3 == 0) {
                /* first a dictionary of more than 256 entries, then one of fewer on the same handle */
                uint64_t *wide = malloc(400 * 8);
                for (size_t i = 0; i < 400; i++) wide[i] = a[0] + i * 3;
                varintDictBuild(dc, wide, 400);
                free(wide);
            }
            PAINT();
            varintDictBuild(dc, a, n);
            PAINT();
            varintDictBuild(dc, a, n / 2 + 1);
            {
                /* the handle's history must not matter: same bytes as a fresh handle built from the same values */
                size_t m = n / 2 + 1;
                varintDict *fresh = varintDictCreate();
                varintDictBuild(fresh, a, m);
                uint8_t *e1 = dst_alloc(scratch_size(m)), *e2 = dst_alloc(scratch_size(m));
                size_t b1 = varintDictEncodeWithDict(e1, dc, a, m), b2 = varintDictEncodeWithDict(e2, fresh, a, m);
                if (b1 != b2 || memcmp(e1, e2, b1) || varintDictEncodedSizeWithDict(dc, m) != varintDictEncodedSizeWithDict(fresh, m)) {
                    viol("C15:varintDictEncodeWithDict:result-depends-on-handle-history", "call %" PRIu64 ": reused handle wrote %zu bytes, fresh handle %zu bytes for the same %zu values", ci, b1, b2, m);
                }
                digest_bytes(&d, e1, b1);
                free(e1);
                free(e2);
                varintDictFree(fresh);
            }
            digest_u64(&d, dc->size); digest_u64(&d, dc->indexWidth);
            CHECK_INIT(dc->values, dc->size * 8);
            digest_bytes(&d, dc->values, dc->size * 8);
            PAINT();
            digest_u64(&d, (uint64_t)varintDictFind(dc, a[0]));
            varintDictFree(dc);
            break;
        }
        case 12: { /* PFOR decode through ReadMeta */
            uint8_t *dst = dst_alloc(scratch_size(n));
            varintPFORMeta pm;
            memset(&pm, 0, sizeof pm);
            g_ctx = "varintPFOREncode";
            PAINT();
            size_t ret = varintPFOREncode(dst, a, (uint32_t)n, 95, &pm);
            varintPFORMeta rm;
            memset(&rm, 0, sizeof rm);
            g_ctx = "varintPFORReadMeta";
            PAINT();
            size_t hl = varintPFORReadMeta(dst, &rm);
            digest_u64(&d, ret); digest_u64(&d, hl); digest_u64(&d, rm.min); digest_u64(&d, rm.count); digest_u64(&d, rm.exceptionCount); digest_u64(&d, rm.width); digest_u64(&d, rm.exceptionMarker); digest_u64(&d, rm.threshold);
            free(dst);
            break;
        }
        default: { /* BP128 delta 64 meta (all fields) */
            qsort(a, n, 8, cmp_u64);
            uint8_t *dst = dst_alloc(varintBP128MaxBytes(n) + 16);
            varintBP128Meta m;
#if VERIF_MSAN
            __msan_allocated_memory(&m, sizeof m);
#else
            memset(&m, WORLD == 8 ? 0xFF : 0, sizeof m);
#endif
            g_ctx = "varintBP128DeltaEncode64";
            PAINT();
            size_t ret = varintBP128DeltaEncode64(dst, a, n, &m);
            CHECK_INIT(&m.count, 8); CHECK_INIT(&m.blockCount, 8); CHECK_INIT(&m.encodedBytes, 8); CHECK_INIT(&m.lastBlockSize, 8); CHECK_INIT(&m.maxBitWidth, 1);
            digest_u64(&d, ret); digest_u64(&d, m.count); digest_u64(&d, m.blockCount); digest_u64(&d, m.encodedBytes); digest_u64(&d, m.lastBlockSize); digest_u64(&d, m.maxBitWidth);
            free(dst);
            break;
        }
        }
        free(a);
    }
    g_sub[0] = 0;
    return d.a ^ rotl64(d.b, 17);
}

int main(int argc, char **argv) {
    parse_args(argc, argv);
    install_handlers();
    gen_init();
    WORLD = (int)g_param[0];
    if (WORLD == 8) mallopt(M_PERTURB, 0xA7);
    uint64_t n = g_count;
    uint64_t *digs = calloc(n, 8);
    uint64_t *order = malloc(n * 8);
    for (uint64_t i = 0; i < n; i++) order[i] = i;
    rng_t wr;
    rng_seed(&wr, mix3(g_seed, 0x33, (uint64_t)WORLD + g_shard * 131));
    if (WORLD == 1) {
        for (uint64_t i = n; i > 1; i--) {
            uint64_t j = rng_below(&wr, i);
            uint64_t t = order[i - 1];
            order[i - 1] = order[j];
            order[j] = t;
        }
    }
    uint64_t done = 0;
    for (uint64_t k = 0; k < n; k++) {
        uint64_t i = order[k];
        /* crash restarts resume by position in this world's order */
        if (k < g_from) continue;
        if (g_only >= 0 && k != (uint64_t)g_only) continue;
        g_case = k;
        uint64_t ci = i * g_nshards + g_shard; /* global call number */
        if (WORLD == 2) {
            int pre = 1 + (int)rng_below(&wr, 3);
            for (int p = 0; p < pre; p++) (void)do_call(rng_below(&wr, n * g_nshards));
        }
        digs[i] = do_call(ci);
        if (g_param[1]) printf("CALLDIG %" PRIu64 " %016" PRIx64 " %s\n", ci, digs[i], (ci % NKINDS) < NCODECS ? CODECS[ci % NKINDS].name : "extra-api");
        done++;
        STAT_INC("c15_calls");
        if ((ci % NKINDS) >= NCODECS || codec_is_adaptive(&CODECS[ci % NKINDS]) || !strncmp(CODECS[ci % NKINDS].name, "pfor", 4) || !strncmp(CODECS[ci % NKINDS].name, "dict", 4) || !strncmp(CODECS[ci % NKINDS].name, "for", 3)) STAT_INC("distinct_nontrivial");
    }
    digest_t all;
    digest_init(&all);
    for (uint64_t i = 0; i < n; i++) digest_u64(&all, digs[i]);
    if (g_from == 0 && g_only < 0) digest_print("calls", &all);
    printf("SAMPLE {\"world\":%d,\"calls\":%" PRIu64 ",\"first_call_digest\":\"%016" PRIx64 "\"}\n", WORLD, done, digs[0]);
    finish_run(done);
    return 0;
}
