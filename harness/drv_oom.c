/* drv_oom.c — C18: a failed allocation is reported, never a crash, leak or silent corruption.
 * For every scenario (allocating API x input) the number N of allocation calls is learnt in a
 * fault-free run; then for k = 1..N a forked child repeats it with exactly the k-th allocation
 * returning NULL.  Linked with wrap_alloc.c (--wrap=malloc,calloc,realloc,free).
 * case index -> (scenario, input variant); --p0 extra random variants per scenario */
#include "codecs.h"
#include "varintFloat.h"
#include "wrap_alloc.h"
#include <sys/wait.h>

#define OFAIL(cls, ...)                                                                                                \
    do {                                                                                                               \
        char _k[200];                                                                                                  \
        snprintf(_k, sizeof _k, "C18:%s:%s", g_ctx, cls);                                                              \
        viol(_k, __VA_ARGS__);                                                                                         \
        g_bad = 1;                                                                                                     \
    } while (0)
static int g_bad;
static unsigned long g_failk;
static char g_scen[160];

/* ------------------------------------------------------------ bitmap model */
typedef struct {
    uint8_t bits[8192];
} bset;
static inline bool b_has(const bset *m, uint32_t v) { return (m->bits[v >> 3] >> (v & 7)) & 1; }
static inline void b_add(bset *m, uint32_t v) { m->bits[v >> 3] |= (uint8_t)(1u << (v & 7)); }
static inline void b_del(bset *m, uint32_t v) { m->bits[v >> 3] &= (uint8_t)~(1u << (v & 7)); }
static uint32_t b_card(const bset *m) {
    uint32_t c = 0;
    for (int i = 0; i < 8192; i++) c += (uint32_t)__builtin_popcount(m->bits[i]);
    return c;
}
/* read the object's state into a bset through the public API; false if internally inconsistent */
static bool bm_snapshot(const varintBitmap *vb, bset *out, const char *when) {
    memset(out, 0, sizeof *out);
    uint16_t *arr = malloc(65536 * 2 + 16);
    uint32_t card = varintBitmapCardinality(vb);
    if (card > 65536) {
        OFAIL("object-inconsistent-after-failure", "%s %s: cardinality %u", g_scen, when, card);
        free(arr);
        return false;
    }
    uint32_t n = varintBitmapToArray(vb, arr);
    bool ok = n == card;
    for (uint32_t i = 0; i < n && ok; i++) {
        if (i && arr[i] <= arr[i - 1]) ok = false;
        b_add(out, arr[i]);
    }
    for (uint32_t i = 0; i < n && ok; i += 97) ok = varintBitmapContains(vb, arr[i]);
    free(arr);
    if (!ok) OFAIL("object-inconsistent-after-failure", "%s %s: export/cardinality/membership disagree (card %u exported %u)", g_scen, when, card, n);
    return ok;
}
static bool bset_eq(const bset *a, const bset *b) { return !memcmp(a, b, sizeof *a); }
static bool bset_subset(const bset *a, const bset *b) {
    for (int i = 0; i < 8192; i++) if (a->bits[i] & ~b->bits[i]) return false;
    return true;
}
/* the object must still work: fault-free operations behave like a set */
static void bm_continue(varintBitmap *vb, bset *m) {
    static const uint16_t probe[] = {0, 1, 4095, 4096, 4097, 30000, 65535};
    /* first the operations that size new objects from this one's bookkeeping, before anything can repair it */
    {
        varintBitmap *cl = varintBitmapClone(vb);
        bset cs;
        if (cl) {
            if (bm_snapshot(cl, &cs, "clone after the failure") && !bset_eq(&cs, m)) OFAIL("object-unusable-after-failure", "%s: clone differs from the set", g_scen);
            varintBitmapFree(cl);
        }
        varintBitmap *un = varintBitmapOr(vb, vb);
        if (un) {
            if (bm_snapshot(un, &cs, "self-union after the failure") && !bset_eq(&cs, m)) OFAIL("object-unusable-after-failure", "%s: Or(x, x) differs from the set", g_scen);
            varintBitmapFree(un);
        }
        uint8_t *eb = malloc(varintBitmapSizeBytes(vb) + 64);
        size_t en = varintBitmapEncode(vb, eb);
        varintBitmap *dec = varintBitmapDecode(eb, en);
        if (dec) {
            if (bm_snapshot(dec, &cs, "encode+decode after the failure") && !bset_eq(&cs, m)) OFAIL("object-unusable-after-failure", "%s: encode+decode differs from the set", g_scen);
            varintBitmapFree(dec);
        } else {
            OFAIL("object-unusable-after-failure", "%s: the object's own encoding is rejected by the decoder", g_scen);
        }
        free(eb);
    }
    for (unsigned i = 0; i < sizeof probe / sizeof probe[0]; i++) {
        bool had = b_has(m, probe[i]);
        bool r1 = varintBitmapAdd(vb, probe[i]);
        if (r1 == had) {
            OFAIL("object-unusable-after-failure", "%s: Add(%u) returned %d, member before: %d", g_scen, probe[i], r1, had);
            return;
        }
        b_add(m, probe[i]);
    }
    bool r2 = varintBitmapRemove(vb, 4096);
    b_del(m, 4096);
    if (!r2) OFAIL("object-unusable-after-failure", "%s: Remove(4096) after Add failed", g_scen);
    bset now;
    if (bm_snapshot(vb, &now, "after continuation") && !bset_eq(&now, m)) OFAIL("object-unusable-after-failure", "%s: set differs from model after fault-free continuation", g_scen);
}
/* build a bitmap of a given shape without faults */
enum { SH_EMPTY, SH_SMALL, SH_16, SH_4095, SH_4096, SH_4097, SH_RUNS_BIG, SH_RUNS_SMALL_AFTER_CLEAR, SH_BITMAP_DENSE, SH_BITMAP_4096, SH_BITMAP_SPARSE, SH_N };
static const char *const SHN[SH_N] = {"empty", "small", "16-members", "4095-members", "4096-members", "4097-members", "runs-5000", "runs-typed-empty", "bitmap-9000", "bitmap-container-with-4096", "bitmap-container-with-few-members"};
static varintBitmap *bm_make(int shape, bset *m, rng_t *r) {
    varintBitmap *vb = varintBitmapCreate();
    memset(m, 0, sizeof *m);
    uint32_t n = 0;
    switch (shape) {
    case SH_EMPTY: break;
    case SH_SMALL: n = 5; break;
    case SH_16: n = 16; break;
    case SH_4095: n = 4095; break;
    case SH_4096: n = 4096; break;
    case SH_4097: n = 4097; break;
    case SH_BITMAP_4096: n = 4097; break;
    case SH_RUNS_BIG: varintBitmapAddRange(vb, 100, 5100); for (uint32_t v = 100; v < 5100; v++) b_add(m, v); break;
    case SH_RUNS_SMALL_AFTER_CLEAR: varintBitmapAddRange(vb, 7, 5007); varintBitmapClear(vb); break;
    default: n = 9000; break;
    }
    uint32_t base = (uint32_t)rng_below(r, 1000);
    for (uint32_t i = 0; i < n; i++) {
        uint32_t v = base + i * 7 + (i % 3);
        varintBitmapAdd(vb, (uint16_t)v);
        b_add(m, v & 0xffff);
    }
    if (shape == SH_BITMAP_SPARSE) { /* > 4096 adds, Clear (stays BITMAP-typed), then a few adds */
        for (uint32_t i = 0; i < 4200; i++) varintBitmapAdd(vb, (uint16_t)(i * 5));
        varintBitmapClear(vb);
        memset(m, 0, sizeof *m);
        for (uint32_t i = 0; i < 20; i++) {
            varintBitmapAdd(vb, (uint16_t)(i * 301 + base));
            b_add(m, (i * 301 + base) & 0xffff);
        }
    }
    if (shape == SH_BITMAP_4096) { /* a BITMAP container sitting right at the conversion threshold */
        uint32_t v = base + 5 * 7 + (5 % 3);
        varintBitmapRemove(vb, (uint16_t)v);
        b_del(m, v & 0xffff);
    }
    return vb;
}

/* ----------------------------------------------------------------- scenarios */
typedef void (*scen_fn)(int variant, rng_t *r);
typedef struct {
    const char *name;
    scen_fn fn;
    int nvariants;
} scen_t;

#define ARM() wa_arm(g_failk)
#define DISARM() wa_disarm()
static unsigned long g_counted;
#define END_CALL() (g_counted = DISARM())

static uint64_t *mk_values(rng_t *r, int variant, size_t *pn) {
    static const size_t ns[] = {1, 5, 17, 40, 300, 1000};
    size_t n = ns[variant % 6];
    uint64_t *a = malloc(n * 8);
    int model = variant % 6 == 2 ? AM_UNIQUE9 : variant % 6 == 4 ? AM_FEWUNIQ : variant % 6 == 5 ? AM_CLUSTER_OUT : (int)rng_below(r, AM_NMODELS);
    gen_array_model(r, model, a, n, 64);
    *pn = n;
    return a;
}

static void s_dict_create(int v, rng_t *r) {
    (void)v; (void)r;
    g_ctx = "varintDictCreate";
    ARM();
    varintDict *d = varintDictCreate();
    END_CALL();
    if (d) {
        if (d->size != 0 || !d->values) OFAIL("success-with-wrong-result", "%s", g_scen);
        varintDictFree(d);
    }
}
static void s_dict_build(int v, rng_t *r) {
    size_t n;
    uint64_t *a = mk_values(r, v, &n);
    varintDict *d = varintDictCreate();
    uint64_t seedv[3] = {5, 6, 7};
    varintDictBuild(d, seedv, 3);
    g_ctx = "varintDictBuild";
    ARM();
    int rc = varintDictBuild(d, a, n);
    END_CALL();
    if (rc != 0 && rc != -1) OFAIL("undocumented-return", "%s returned %d", g_scen, rc);
    if (rc == 0) {
        for (size_t i = 0; i < n; i++) {
            if (varintDictFind(d, a[i]) < 0) {
                OFAIL("success-with-wrong-result", "%s: value %zu missing from dictionary", g_scen, i);
                break;
            }
        }
        for (uint32_t i = 1; i < d->size; i++) if (d->values[i] <= d->values[i - 1]) { OFAIL("success-with-wrong-result", "%s: dictionary not sorted-unique", g_scen); break; }
    }
    /* long-lived object stays usable */
    if (varintDictBuild(d, a, n) != 0 || varintDictFind(d, a[0]) < 0) OFAIL("object-unusable-after-failure", "%s: fault-free rebuild failed", g_scen);
    varintDictFree(d);
    free(a);
}
static void roundtrip_check(const char *what, const uint8_t *enc, size_t nb, const uint64_t *a, size_t n) {
    uint64_t *o = malloc(n * 8 + 8);
    size_t dn = varintDictDecodeInto(enc, nb, o, n);
    if (dn != n || memcmp(o, a, n * 8)) OFAIL("success-with-output-that-does-not-decode-to-input", "%s: %s returned %zu bytes", g_scen, what, nb);
    free(o);
}
static void s_dict_encode(int v, rng_t *r) {
    size_t n;
    uint64_t *a = mk_values(r, v, &n);
    uint8_t *dst = malloc(scratch_size(n));
    g_ctx = "varintDictEncode";
    ARM();
    size_t nb = varintDictEncode(dst, a, n);
    END_CALL();
    if (nb) roundtrip_check("varintDictEncode", dst, nb, a, n);
    free(dst);
    free(a);
}
static void s_dict_decode(int v, rng_t *r) {
    size_t n;
    uint64_t *a = mk_values(r, v, &n);
    uint8_t *dst = malloc(scratch_size(n));
    size_t nb = varintDictEncode(dst, a, n);
    size_t cnt = 0;
    g_ctx = "varintDictDecode";
    ARM();
    uint64_t *o = varintDictDecode(dst, nb, &cnt);
    END_CALL();
    if (o) {
        if (cnt != n || memcmp(o, a, n * 8)) OFAIL("success-with-wrong-result", "%s count %zu", g_scen, cnt);
        free(o);
    }
    free(dst);
    free(a);
}
static void s_dict_decodeinto(int v, rng_t *r) {
    size_t n;
    uint64_t *a = mk_values(r, v, &n);
    uint8_t *dst = malloc(scratch_size(n));
    size_t nb = varintDictEncode(dst, a, n);
    uint64_t *o = malloc(n * 8 + 8);
    g_ctx = "varintDictDecodeInto";
    ARM();
    size_t dn = varintDictDecodeInto(dst, nb, o, n);
    END_CALL();
    if (dn && (dn != n || memcmp(o, a, n * 8))) OFAIL("success-with-wrong-result", "%s returned %zu", g_scen, dn);
    free(o);
    free(dst);
    free(a);
}
static void s_dict_size_stats(int v, rng_t *r) {
    size_t n;
    uint64_t *a = mk_values(r, v, &n);
    size_t truth = varintDictEncodedSize(a, n);
    g_ctx = "varintDictEncodedSize";
    ARM();
    size_t sz = varintDictEncodedSize(a, n);
    END_CALL();
    if (sz && sz != truth) OFAIL("success-with-wrong-result", "%s size %zu truth %zu", g_scen, sz, truth);
    unsigned long c1 = g_counted;
    varintDictStats st;
    memset(&st, 0xEE, sizeof st);
    g_ctx = "varintDictGetStats";
    ARM();
    int rc = varintDictGetStats(a, n, &st);
    END_CALL();
    g_counted = c1 > g_counted ? c1 : g_counted;
    if (rc == 0 && (st.totalBytes != truth || st.totalCount != n)) OFAIL("success-with-wrong-result", "%s stats total %zu truth %zu", g_scen, st.totalBytes, truth);
    if (rc != 0 && rc != -1) OFAIL("undocumented-return", "%s GetStats returned %d", g_scen, rc);
    free(a);
}
static void s_pfor_threshold(int v, rng_t *r) {
    size_t n;
    uint64_t *a = mk_values(r, v, &n);
    varintPFORMeta truth, m;
    memset(&truth, 0, sizeof truth);
    varintPFORComputeThreshold(a, (uint32_t)n, 95, &truth);
    memset(&m, 0xEE, sizeof m);
    g_ctx = "varintPFORComputeThreshold";
    ARM();
    varintWidth w = varintPFORComputeThreshold(a, (uint32_t)n, 95, &m);
    END_CALL();
    bool failed = m.count == 0 && m.width == 0; /* documented out-of-memory outcome: zeroed metadata */
    if (!failed && (memcmp(&m, &truth, sizeof m) || w != truth.width)) OFAIL("success-with-wrong-result", "%s", g_scen);
    free(a);
}
static void s_pfor_encode(int v, rng_t *r) {
    size_t n;
    uint64_t *a = mk_values(r, v, &n);
    uint8_t *dst = malloc(scratch_size(n));
    varintPFORMeta m;
    memset(&m, 0, sizeof m);
    g_ctx = "varintPFOREncode";
    ARM();
    size_t nb = varintPFOREncode(dst, a, (uint32_t)n, 90 + (uint32_t)(v % 3) * 5 - ((v % 3) == 2), &m);
    END_CALL();
    if (nb) {
        uint64_t *o = malloc(n * 8 + 8);
        varintPFORMeta dm;
        memset(&dm, 0, sizeof dm);
        size_t dn = varintPFORDecode(dst, o, &dm);
        if (dn != n || memcmp(o, a, n * 8)) OFAIL("success-with-output-that-does-not-decode-to-input", "%s returned %zu bytes", g_scen, nb);
        else {
            /* every reader of the stream must agree, not only the full decoder */
            for (size_t i = 0; i < n; i++) {
                if (varintPFORGetAt(dst, (uint32_t)i, &m) != a[i]) {
                    OFAIL("success-with-output-that-does-not-decode-to-input", "%s: full decode is right but varintPFORGetAt(%zu) returns %" PRIu64 " for %" PRIu64, g_scen, i, varintPFORGetAt(dst, (uint32_t)i, &m), a[i]);
                    break;
                }
            }
        }
        free(o);
    }
    free(dst);
    free(a);
}
static double *mk_doubles(rng_t *r, int variant, size_t *pn) {
    static const size_t ns[] = {1, 9, 200};
    size_t n = ns[variant % 3];
    double *d = malloc(n * 8);
    for (size_t i = 0; i < n; i++) {
        uint64_t e = 900 + rng_below(r, 200);
        d[i] = dbl_from_bits(((rng_next(r) & 1) << 63) | (e << 52) | (rng_next(r) & 0xFFFFFFFFFFFFFULL));
        if (variant / 3 == 1) d[i] = dbl_from_bits((rng_next(r) & 1) << 63); /* only specials: no normal values */
        if (variant / 3 == 2 && (i & 1)) d[i] = INFINITY;
    }
    *pn = n;
    return d;
}
static void float_verify(const uint8_t *enc, size_t nb, const double *d, size_t n, int prec) {
    double *o = malloc(n * 8);
    size_t used = varintFloatDecode(enc, n, o);
    bool ok = used == nb;
    double bound = varintFloatPrecisionMaxRelativeError((varintFloatPrecision)prec);
    for (size_t i = 0; i < n && ok; i++) {
        if (!isfinite(d[i]) || d[i] == 0 || prec == 0) ok = dbl_bits(o[i]) == dbl_bits(d[i]);
        else ok = fabsl((long double)o[i] - (long double)d[i]) <= (long double)bound * fabsl((long double)d[i]);
    }
    if (!ok) OFAIL("success-with-output-that-does-not-decode-to-input", "%s %zu bytes", g_scen, nb);
    free(o);
}
static void s_float_encode(int v, rng_t *r) {
    size_t n;
    double *d = mk_doubles(r, v, &n);
    int prec = v % 4, mode = (v / 2) % 3;
    uint8_t *dst = malloc(varintFloatMaxEncodedSize(n, prec) + 16);
    g_ctx = "varintFloatEncode";
    ARM();
    size_t nb = varintFloatEncode(dst, d, n, prec, mode);
    END_CALL();
    if (nb) float_verify(dst, nb, d, n, prec);
    free(dst);
    free(d);
}
static void s_float_auto(int v, rng_t *r) {
    size_t n;
    double *d = mk_doubles(r, v, &n);
    uint8_t *dst = malloc(varintFloatMaxEncodedSize(n, 0) + 16);
    varintFloatPrecision sel = 0;
    g_ctx = "varintFloatEncodeAuto";
    ARM();
    size_t nb = varintFloatEncodeAuto(dst, d, n, v % 2 ? 1e-3 : 1e-12, v % 3, &sel);
    END_CALL();
    if (nb) float_verify(dst, nb, d, n, (int)sel);
    free(dst);
    free(d);
}
static void s_float_decode(int v, rng_t *r) {
    size_t n;
    double *d = mk_doubles(r, v, &n);
    int prec = v % 4;
    uint8_t *dst = malloc(varintFloatMaxEncodedSize(n, prec) + 16);
    size_t nb = varintFloatEncode(dst, d, n, prec, v % 3);
    double *o = malloc(n * 8), *truth = malloc(n * 8);
    varintFloatDecode(dst, n, truth);
    memset(o, 0x5A, n * 8);
    g_ctx = "varintFloatDecode";
    ARM();
    size_t used = varintFloatDecode(dst, n, o);
    END_CALL();
    if (used && (used != nb || memcmp(o, truth, n * 8))) OFAIL("success-with-wrong-result", "%s consumed %zu of %zu", g_scen, used, nb);
    free(o);
    free(truth);
    free(dst);
    free(d);
}
static uint64_t *mk_adaptive(rng_t *r, int variant, size_t *pn) {
    /* <= 10000 and > 10000 elements: both branches of CountUnique; sorted-with-duplicates to tempt BITMAP */
    size_t n;
    uint64_t *a;
    switch (variant % 5) {
    case 0: n = 50; a = malloc(n * 8); gen_array_model(r, AM_MIXTURE, a, n, 64); break;
    case 1: n = 600; a = malloc(n * 8); for (size_t i = 0; i < n; i++) a[i] = 1000 + i / 2; break;          /* ascending with duplicates, < 65536 */
    case 2: n = 10050; a = malloc(n * 8); for (size_t i = 0; i < n; i++) a[i] = i % 10 ? (rng_next(r) | 1ULL << 62) : 7; break;
    case 3: n = 300; a = malloc(n * 8); gen_array_model(r, AM_CLUSTER_OUT, a, n, 64); break;
    default: n = 400; a = malloc(n * 8); for (size_t i = 0; i < n; i++) a[i] = 500 + i * 3; break;             /* strictly ascending < 65536 */
    }
    *pn = n;
    return a;
}
static void s_adaptive_unique(int v, rng_t *r) {
    size_t n;
    uint64_t *a = mk_adaptive(r, v, &n);
    size_t truth = varintAdaptiveCountUnique(a, n);
    g_ctx = "varintAdaptiveCountUnique";
    ARM();
    size_t u = varintAdaptiveCountUnique(a, n);
    END_CALL();
    if (u != truth && u != n) OFAIL("success-with-wrong-result", "%s returned %zu (fault-free %zu, documented fallback %zu)", g_scen, u, truth, n);
    free(a);
}
static void adaptive_verify(const char *api, const uint8_t *enc, size_t nb, const uint64_t *a, size_t n) {
    uint64_t *o = malloc(n * 8 + 8);
    size_t dn = varintAdaptiveDecode(enc, o, n, NULL);
    if (dn != n || memcmp(o, a, n * 8)) OFAIL("success-with-output-that-does-not-decode-to-input", "%s: %s wrote %zu bytes (encoding %d), decode returned %zu", g_scen, api, nb, enc[0], dn);
    free(o);
}
static void s_adaptive_encode(int v, rng_t *r) {
    size_t n;
    uint64_t *a = mk_adaptive(r, v, &n);
    uint8_t *dst = malloc(scratch_size(n));
    varintAdaptiveMeta m;
    g_ctx = "varintAdaptiveEncode";
    ARM();
    size_t nb = varintAdaptiveEncode(dst, a, n, &m);
    END_CALL();
    if (nb) adaptive_verify("varintAdaptiveEncode", dst, nb, a, n);
    free(dst);
    free(a);
}
static void s_adaptive_encode_with(int v, rng_t *r) {
    size_t n;
    int type = v % 6;
    uint64_t *a = mk_adaptive(r, type == VARINT_ADAPTIVE_BITMAP ? 4 : v / 6, &n);
    uint8_t *dst = malloc(scratch_size(n));
    static char nm[64];
    snprintf(nm, sizeof nm, "varintAdaptiveEncodeWith(%d)", type);
    g_ctx = nm;
    ARM();
    size_t nb = varintAdaptiveEncodeWith(dst, a, n, (varintAdaptiveEncodingType)type, NULL);
    END_CALL();
    if (nb) adaptive_verify(nm, dst, nb, a, n);
    free(dst);
    free(a);
}
static void s_adaptive_decode(int v, rng_t *r) {
    size_t n;
    int type = v % 6;
    uint64_t *a = mk_adaptive(r, type == VARINT_ADAPTIVE_BITMAP ? 4 : v / 6, &n);
    uint8_t *dst = malloc(scratch_size(n));
    size_t nb = varintAdaptiveEncodeWith(dst, a, n, (varintAdaptiveEncodingType)type, NULL);
    uint64_t *o = malloc(n * 8 + 8);
    static char nm[64];
    snprintf(nm, sizeof nm, "varintAdaptiveDecode(%d)", type);
    g_ctx = nm;
    ARM();
    size_t dn = varintAdaptiveDecode(dst, o, n, NULL);
    END_CALL();
    if (dn && (dn != n || memcmp(o, a, n * 8))) OFAIL("success-with-wrong-result", "%s returned %zu of %zu (bytes %zu)", g_scen, dn, n, nb);
    free(o);
    free(dst);
    free(a);
}
static void s_adaptive_decode_cap(int v, rng_t *r) {
    /* product of fault position and small capacity */
    size_t n;
    int type = v % 6;
    uint64_t *a = mk_adaptive(r, type == VARINT_ADAPTIVE_BITMAP ? 4 : v / 6, &n);
    uint8_t *dst = malloc(scratch_size(n));
    size_t nb = varintAdaptiveEncodeWith(dst, a, n, (varintAdaptiveEncodingType)type, NULL);
    size_t cap = (v / 6) % 2 ? n / 2 : 3;
    gbuf_t gb;
    gbuf_alloc(&gb, cap * 8, 4096, 0x19);
    static char nm[64];
    snprintf(nm, sizeof nm, "varintAdaptiveDecode(%d,capacity<n)", type);
    g_ctx = nm;
    ARM();
    size_t dn = varintAdaptiveDecode(dst, (uint64_t *)gb.p, cap, NULL);
    END_CALL();
    if (gbuf_check(&gb) != -1 || dn > cap) OFAIL("write-past-output-capacity", "%s: capacity %zu of %zu, returned %zu (bytes %zu)", g_scen, cap, n, dn, nb);
    else if (dn && memcmp(gb.p, a, dn * 8)) OFAIL("success-with-wrong-result", "%s: prefix of %zu differs", g_scen, dn);
    gbuf_free(&gb);
    free(dst);
    free(a);
}
/* a dictionary handle re-used across index-width classes, the rebuild failing half way */
static void s_dict_rebuild_reuse(int v, rng_t *r) {
    size_t n1 = v % 2 ? 200 : 300, n2 = v % 2 ? 300 : 200;
    if (v >= 2) { n1 = v == 2 ? 65000 : 66000; n2 = v == 2 ? 66000 : 65000; }
    uint64_t *a1 = malloc(n1 * 8), *a2 = malloc(n2 * 8);
    for (size_t i = 0; i < n1; i++) a1[i] = (rng_next(r) << 20) | i;
    for (size_t i = 0; i < n2; i++) a2[i] = (rng_next(r) << 20) | (i + 70000);
    varintDict *d = varintDictCreate();
    varintDictBuild(d, a1, n1);
    g_ctx = "varintDictBuild(reused-handle)";
    ARM();
    int rc = varintDictBuild(d, a2, n2);
    END_CALL();
    /* whichever array the handle now holds must encode to something that decodes to it */
    const uint64_t *cur = rc == 0 ? a2 : a1;
    size_t cn = rc == 0 ? n2 : n1;
    uint8_t *dst = malloc(scratch_size(cn));
    size_t nb = varintDictEncodeWithDict(dst, d, cur, cn);
    if (nb == 0) OFAIL("object-unusable-after-failure", "%s: Build returned %d, EncodeWithDict of the array the handle holds failed", g_scen, rc);
    else {
        roundtrip_check("varintDictEncodeWithDict after Build", dst, nb, cur, cn);
        if (nb != varintDictEncodedSizeWithDict(d, cn)) OFAIL("object-inconsistent-after-failure", "%s: size predictor %zu written %zu", g_scen, varintDictEncodedSizeWithDict(d, cn), nb);
    }
    free(dst);
    varintDictFree(d);
    free(a1);
    free(a2);
}
static void s_adaptive_analyze(int v, rng_t *r) {
    size_t n;
    uint64_t *a = mk_adaptive(r, v, &n);
    varintAdaptiveDataStats truth, st;
    varintAdaptiveAnalyze(a, n, &truth);
    g_ctx = "varintAdaptiveAnalyze";
    ARM();
    varintAdaptiveAnalyze(a, n, &st);
    END_CALL();
    bool same = st.count == truth.count && st.minValue == truth.minValue && st.maxValue == truth.maxValue && st.isSorted == truth.isSorted && st.avgDelta == truth.avgDelta;
    if (!same || (st.uniqueCount != truth.uniqueCount && st.uniqueCount != n)) OFAIL("success-with-wrong-result", "%s unique %zu (fault-free %zu)", g_scen, st.uniqueCount, truth.uniqueCount);
    free(a);
}

/* bitmap scenarios: variant selects the object shape */
static void bm_finish(varintBitmap *vb, bset *m) {
    bm_continue(vb, m);
    varintBitmapFree(vb);
}
static void s_bm_create(int v, rng_t *r) {
    (void)v; (void)r;
    g_ctx = "varintBitmapCreate";
    ARM();
    varintBitmap *vb = varintBitmapCreate();
    END_CALL();
    if (vb) {
        bset m;
        memset(&m, 0, sizeof m);
        if (varintBitmapCardinality(vb)) OFAIL("success-with-wrong-result", "%s", g_scen);
        bm_finish(vb, &m);
    }
}
static void s_bm_clone(int v, rng_t *r) {
    bset m, s;
    varintBitmap *vb = bm_make(v % SH_N, &m, r);
    g_ctx = "varintBitmapClone";
    ARM();
    varintBitmap *c = varintBitmapClone(vb);
    END_CALL();
    if (c) {
        if (bm_snapshot(c, &s, "clone") && !bset_eq(&s, &m)) OFAIL("success-with-wrong-result", "%s: clone differs", g_scen);
        bset mc = m;
        bm_finish(c, &mc);
    }
    if (bm_snapshot(vb, &s, "source") && !bset_eq(&s, &m)) OFAIL("operand-changed", "%s", g_scen);
    varintBitmapFree(vb);
}
static void s_bm_add(int v, rng_t *r) {
    bset m, s;
    varintBitmap *vb = bm_make(v % SH_N, &m, r);
    uint32_t val = 60000 + (uint32_t)rng_below(r, 5000);
    g_ctx = "varintBitmapAdd";
    ARM();
    bool changed = varintBitmapAdd(vb, (uint16_t)val);
    END_CALL();
    if (changed) b_add(&m, val);
    if (bm_snapshot(vb, &s, "after Add") && !bset_eq(&s, &m)) OFAIL(changed ? "success-with-wrong-result" : "failure-reported-but-object-changed", "%s: Add(%u) returned %d", g_scen, val, changed);
    bm_finish(vb, &m);
}
static void s_bm_remove(int v, rng_t *r) {
    bset m, s;
    varintBitmap *vb = bm_make(v % SH_N, &m, r);
    /* remove an existing member where there is one */
    uint32_t val = 0;
    for (uint32_t x = 0; x < 65536; x++) if (b_has(&m, x)) { val = x; break; }
    g_ctx = "varintBitmapRemove";
    ARM();
    bool changed = varintBitmapRemove(vb, (uint16_t)val);
    END_CALL();
    if (changed) b_del(&m, val);
    if (bm_snapshot(vb, &s, "after Remove") && !bset_eq(&s, &m)) OFAIL(changed ? "success-with-wrong-result" : "failure-reported-but-object-changed", "%s: Remove(%u) returned %d", g_scen, val, changed);
    bm_finish(vb, &m);
}
static void s_bm_addrange(int v, rng_t *r) {
    bset m, s, upper;
    varintBitmap *vb = bm_make(v % SH_N, &m, r);
    uint32_t lo = 20000, hi = (v / SH_N) % 2 ? 20000 + 5000 : 20000 + 40; /* long (> 4096) and short ranges */
    upper = m;
    for (uint32_t x = lo; x < hi; x++) b_add(&upper, x);
    g_ctx = "varintBitmapAddRange";
    ARM();
    varintBitmapAddRange(vb, (uint16_t)lo, (uint16_t)hi);
    END_CALL();
    /* no failure channel: the object must be a consistent set S with old <= S <= old + range */
    if (bm_snapshot(vb, &s, "after AddRange")) {
        if (!bset_subset(&m, &s)) OFAIL("existing-members-lost", "%s: [%u,%u) had %u members before, %u after", g_scen, lo, hi, b_card(&m), b_card(&s));
        else if (!bset_subset(&s, &upper)) OFAIL("foreign-members-appeared", "%s", g_scen);
        else if (g_failk == 0 && !bset_eq(&s, &upper)) OFAIL("success-with-wrong-result", "%s (fault-free)", g_scen);
        m = s;
        bm_finish(vb, &m);
    } else {
        varintBitmapFree(vb);
    }
}
static void s_bm_removerange(int v, rng_t *r) {
    bset m, s, lower;
    varintBitmap *vb = bm_make(v % SH_N, &m, r);
    uint32_t lo = 1000, hi = 1000 + 3000;
    lower = m;
    for (uint32_t x = lo; x < hi; x++) b_del(&lower, x);
    g_ctx = "varintBitmapRemoveRange";
    ARM();
    varintBitmapRemoveRange(vb, (uint16_t)lo, (uint16_t)hi);
    END_CALL();
    if (bm_snapshot(vb, &s, "after RemoveRange")) {
        if (!bset_subset(&lower, &s)) OFAIL("unrelated-members-lost", "%s", g_scen);
        else if (!bset_subset(&s, &m)) OFAIL("foreign-members-appeared", "%s", g_scen);
        m = s;
        bm_finish(vb, &m);
    } else {
        varintBitmapFree(vb);
    }
}
static void s_bm_addmany(int v, rng_t *r) {
    bset m, s, upper;
    varintBitmap *vb = bm_make(v % SH_N, &m, r);
    uint16_t vals[300];
    upper = m;
    for (int i = 0; i < 300; i++) {
        vals[i] = (uint16_t)(30000 + rng_below(r, 9000));
        b_add(&upper, vals[i]);
    }
    g_ctx = "varintBitmapAddMany";
    ARM();
    varintBitmapAddMany(vb, vals, 300);
    END_CALL();
    if (bm_snapshot(vb, &s, "after AddMany")) {
        if (!bset_subset(&m, &s)) OFAIL("existing-members-lost", "%s", g_scen);
        else if (!bset_subset(&s, &upper)) OFAIL("foreign-members-appeared", "%s", g_scen);
        m = s;
        bm_finish(vb, &m);
    } else {
        varintBitmapFree(vb);
    }
}
static void s_bm_algebra(int v, rng_t *r) {
    bset ma, mb, want, s;
    int op = v % 4;
    varintBitmap *a = bm_make((v / 4) % SH_N, &ma, r);
    varintBitmap *b = bm_make((v / 4 + 3) % SH_N, &mb, r);
    for (int i = 0; i < 8192; i++) {
        want.bits[i] = op == 0 ? (ma.bits[i] & mb.bits[i]) : op == 1 ? (ma.bits[i] | mb.bits[i]) : op == 2 ? (ma.bits[i] ^ mb.bits[i]) : (ma.bits[i] & (uint8_t)~mb.bits[i]);
    }
    static const char *const nm[4] = {"varintBitmapAnd", "varintBitmapOr", "varintBitmapXor", "varintBitmapAndNot"};
    g_ctx = nm[op];
    ARM();
    varintBitmap *res = op == 0 ? varintBitmapAnd(a, b) : op == 1 ? varintBitmapOr(a, b) : op == 2 ? varintBitmapXor(a, b) : varintBitmapAndNot(a, b);
    END_CALL();
    if (res) {
        if (bm_snapshot(res, &s, "result") && !bset_eq(&s, &want)) OFAIL("success-with-wrong-result", "%s: result has %u members, expected %u", g_scen, b_card(&s), b_card(&want));
        varintBitmapFree(res);
    }
    if (bm_snapshot(a, &s, "operand 1") && !bset_eq(&s, &ma)) OFAIL("operand-changed", "%s", g_scen);
    if (bm_snapshot(b, &s, "operand 2") && !bset_eq(&s, &mb)) OFAIL("operand-changed", "%s", g_scen);
    varintBitmapFree(a);
    varintBitmapFree(b);
}
static void s_bm_decode(int v, rng_t *r) {
    bset m, s;
    varintBitmap *vb = bm_make(v % SH_N, &m, r);
    uint8_t *buf = malloc(9000);
    size_t nb = varintBitmapEncode(vb, buf);
    g_ctx = "varintBitmapDecode";
    ARM();
    varintBitmap *d = varintBitmapDecode(buf, nb);
    END_CALL();
    if (d) {
        if (bm_snapshot(d, &s, "decoded") && !bset_eq(&s, &m)) OFAIL("success-with-wrong-result", "%s", g_scen);
        bm_finish(d, &m);
    }
    free(buf);
    varintBitmapFree(vb);
}

static const scen_t SCEN[] = {
    {"varintDictCreate", s_dict_create, 1},
    {"varintDictBuild", s_dict_build, 6},
    {"varintDictEncode", s_dict_encode, 6},
    {"varintDictDecode", s_dict_decode, 6},
    {"varintDictDecodeInto", s_dict_decodeinto, 6},
    {"varintDictEncodedSize+GetStats", s_dict_size_stats, 6},
    {"varintPFORComputeThreshold", s_pfor_threshold, 6},
    {"varintPFOREncode", s_pfor_encode, 6},
    {"varintFloatEncode", s_float_encode, 9},
    {"varintFloatEncodeAuto", s_float_auto, 9},
    {"varintFloatDecode", s_float_decode, 9},
    {"varintAdaptiveCountUnique", s_adaptive_unique, 5},
    {"varintAdaptiveAnalyze", s_adaptive_analyze, 5},
    {"varintAdaptiveEncode", s_adaptive_encode, 5},
    {"varintAdaptiveEncodeWith", s_adaptive_encode_with, 30},
    {"varintAdaptiveDecode", s_adaptive_decode, 30},
    {"varintAdaptiveDecode(capacity<n)", s_adaptive_decode_cap, 24},
    {"varintDictBuild(reused-handle)", s_dict_rebuild_reuse, 4},
    {"varintBitmapCreate", s_bm_create, 1},
    {"varintBitmapClone", s_bm_clone, SH_N},
    {"varintBitmapAdd", s_bm_add, SH_N},
    {"varintBitmapRemove", s_bm_remove, SH_N},
    {"varintBitmapAddRange", s_bm_addrange, SH_N * 2},
    {"varintBitmapRemoveRange", s_bm_removerange, SH_N},
    {"varintBitmapAddMany", s_bm_addmany, SH_N},
    {"varintBitmapSetAlgebra", s_bm_algebra, 4 * SH_N},
    {"varintBitmapDecode", s_bm_decode, SH_N},
};
#define NSCEN (sizeof(SCEN) / sizeof(SCEN[0]))

static void run_scenario(const scen_t *S, int variant, uint64_t seed, unsigned long failk) {
    rng_t r;
    rng_seed(&r, seed);
    g_failk = failk;
    g_bad = 0;
    snprintf(g_scen, sizeof g_scen, "%s variant %d%s%s k=%lu", S->name, variant, strncmp(S->name, "varintBitmap", 12) ? "" : " shape ", strncmp(S->name, "varintBitmap", 12) ? "" : SHN[(strcmp(S->name, "varintBitmapSetAlgebra") ? variant : variant / 4) % SH_N], failk);
    snprintf(g_sub, sizeof g_sub, "%s", g_scen);
    wa_forget_all();
    S->fn(variant, &r);
    /* everything the harness is entitled to release has been released */
    if (!g_bad && wa_live_blocks()) {
        char d[200];
        wa_describe_live(d, sizeof d, 2);
        g_ctx = S->name;
        OFAIL("memory-leaked", "%s: %lu block(s) allocated during the call still live: %s", g_scen, wa_live_blocks(), d);
    }
    g_sub[0] = 0;
}

static uint64_t g_scen_cases[64], g_scen_faults[64];

static void oom_case(uint64_t idx, rng_t *r0) {
    uint64_t g = idx * g_nshards + g_shard;
    /* enumerate (scenario, variant) pairs, then extra seeded repetitions */
    size_t total = 0;
    for (size_t i = 0; i < NSCEN; i++) total += (size_t)SCEN[i].nvariants;
    size_t slot = g % total;
    size_t si = 0;
    while (slot >= (size_t)SCEN[si].nvariants) {
        slot -= (size_t)SCEN[si].nvariants;
        si++;
    }
    const scen_t *S = &SCEN[si];
    int variant = (int)slot;
    uint64_t seed = mix3(g_seed, g / total, si * 1000 + slot);
    (void)r0;
    /* fault-free run: learn N, and the scenario must pass without faults */
    run_scenario(S, variant, seed, 0);
    unsigned long N = g_counted;
    g_scen_cases[si]++;
    STAT_INC("distinct_nontrivial");
    if (N == 0) {
        STAT_INC("c18_scenarios_without_allocation");
        return;
    }
    if (N > 64) N = 64;
    for (unsigned long k = 1; k <= N; k++) {
        fflush(stdout);
        pid_t pid = fork();
        if (pid == 0) {
            g_in_child = 1;
            alarm(60);
            run_scenario(S, variant, seed, k);
            void *site = wa_last_failed_site();
            if (site) printf("SITE %p\n", site);
            fflush(stdout);
            _exit(g_bad ? 7 : 0);
        }
        int st = 0;
        waitpid(pid, &st, 0);
        g_scen_faults[si]++;
        STAT_INC("c18_faults_injected");
        if (WIFSIGNALED(st) || (WIFEXITED(st) && WEXITSTATUS(st) != 0 && WEXITSTATUS(st) != 7)) {
            char key[200];
            snprintf(key, sizeof key, "C18:%s:crash-on-allocation-failure", S->name);
            viol(key, "%s variant %d: failing allocation %lu of %lu: child %s %d", S->name, variant, k, N, WIFSIGNALED(st) ? "killed by signal" : "exited with status", WIFSIGNALED(st) ? WTERMSIG(st) : WEXITSTATUS(st));
        }
    }
    if (want_sample()) sample("{\"scenario\":\"%s\",\"variant\":%d,\"allocations_in_call\":%lu,\"faults_injected\":%lu}", S->name, variant, g_counted, N);
}

int main(int argc, char **argv) {
    parse_args(argc, argv);
    install_handlers();
    gen_init();
    CASE_LOOP(oom_case);
    for (size_t i = 0; i < NSCEN; i++) {
        printf("STAT scenario.%s %" PRIu64 "\nSTAT faults.%s %" PRIu64 "\n", SCEN[i].name, g_scen_cases[i], SCEN[i].name, g_scen_faults[i]);
    }
    size_t total = 0;
    for (size_t i = 0; i < NSCEN; i++) total += (size_t)SCEN[i].nvariants;
    printf("MAX c18_scenario_variants %zu\n", total);
    fflush(stdout);
    return 0;
}
