/* drv_float.c — float codec.
 *   --mode c07  exactness (FULL, specials) and error bounds (reduced precision, EncodeAuto)
 *   --mode c03  encoder stays inside varintFloatMaxEncodedSize
 *   --mode c16  decoder's consumed byte count equals the encoder's return
 */
#include "common.h"
#include "gen.h"
#include "varintFloat.h"
#include <float.h>
#include <math.h>

static const char *PROP = "C07";
static distinct_t g_distinct;
static digest_t g_dig;
static const char *const PNAME[4] = {"FULL", "HIGH", "MEDIUM", "LOW"};
static const char *const MNAME[3] = {"INDEPENDENT", "COMMON_EXPONENT", "DELTA_EXPONENT"};
static uint64_t g_cell[4][3];
static uint64_t g_ratio_permille;

static inline bool is_special_bits(uint64_t b) {
    unsigned e = (unsigned)((b >> 52) & 0x7FF);
    return e == 0 || e == 0x7FF;
}
static uint64_t gen_double_bits(rng_t *r, int kind, unsigned baseexp) {
    uint64_t sign = rng_next(r) & 1;
    uint64_t mant = rng_next(r) & 0xFFFFFFFFFFFFFULL;
    uint64_t e;
    switch (kind) {
    case 0: /* any normal */
        e = 1 + rng_below(r, 2046);
        break;
    case 1: /* near a base exponent */
        e = baseexp + rng_below(r, 6);
        break;
    case 2: { /* mantissa that carries on rounding: 1.11..1 down to bit j */
        unsigned j = (unsigned)rng_below(r, 52);
        mant = 0xFFFFFFFFFFFFFULL & ~((1ULL << j) - 1);
        if (rng_chance(r, 1, 3)) mant |= rng_next(r) & ((1ULL << j) - 1);
        e = rng_chance(r, 1, 4) ? 2046 : rng_chance(r, 1, 3) ? 1023 : 1 + rng_below(r, 2046);
        break;
    }
    case 3: { /* specials */
        switch (rng_below(r, 5)) {
        case 0: return sign << 63;                                   /* +-0 */
        case 1: return (sign << 63) | (0x7FFULL << 52);              /* +-inf */
        case 2: return (sign << 63) | (0x7FFULL << 52) | (mant | 1); /* NaN with payload */
        case 3: return (sign << 63) | (mant | 1);                    /* subnormal */
        default: return (sign << 63) | 1;                            /* smallest subnormal */
        }
    }
    case 4: /* short mantissas (exactly representable at low precision) */
        mant &= ~((1ULL << (52 - rng_below(r, 12))) - 1);
        e = baseexp + rng_below(r, 3);
        break;
    default: /* extremes */
        e = rng_chance(r, 1, 2) ? 1 + rng_below(r, 4) : 2046 - rng_below(r, 4);
        break;
    }
    if (e < 1) e = 1;
    if (e > 2046) e = 2046;
    return (sign << 63) | (e << 52) | mant;
}

typedef struct {
    double *v;
    size_t n;
    const char *kind;
    bool spread255;
    bool has_carry;
} farr_t;
static size_t g_exact_n = 0; /* when non-zero the next array has exactly this many elements */
static void make_farr(rng_t *r, farr_t *f, size_t maxn) {
    size_t n = gen_len(r, maxn);
    if (g_exact_n) n = g_exact_n;
    f->v = malloc(n * 8); /* exact-size heap block */
    f->n = n;
    unsigned baseexp = 1 + (unsigned)rng_below(r, 2040);
    int ak = (int)rng_below(r, 8);
    static const char *const kn[8] = {"same-magnitude", "any-exponent(spread>255)", "carry-mantissas", "only-specials", "one-normal-among-specials", "mixed", "sensor-like", "extremes"};
    f->kind = kn[ak];
    for (size_t i = 0; i < n; i++) {
        uint64_t b;
        switch (ak) {
        case 0: b = gen_double_bits(r, rng_chance(r, 1, 6) ? 4 : 1, baseexp); break;
        case 1: b = gen_double_bits(r, 0, 0); break;
        case 2: b = gen_double_bits(r, 2, 0); break;
        case 3: b = gen_double_bits(r, 3, 0); break;
        case 4: b = gen_double_bits(r, 3, 0); break;
        case 5: b = gen_double_bits(r, (int)rng_below(r, 6), baseexp); break;
        case 6: {
            double base = ldexp(1.0 + (double)rng_below(r, 1000) / 1000.0, (int)baseexp - 1023);
            double x = base * (1.0 + ((double)rng_below(r, 2001) - 1000.0) * 1e-5);
            b = dbl_bits(x);
            if (is_special_bits(b)) b = gen_double_bits(r, 1, 1000);
            break;
        }
        default: b = gen_double_bits(r, 5, 0); break;
        }
        f->v[i] = dbl_from_bits(b);
    }
    if (n >= 2 && rng_chance(r, 1, 10)) {
        /* exponent spread exactly 254 / 255 / 256 binades, the top value carrying on rounding */
        unsigned spread = 254 + (unsigned)rng_below(r, 3);
        unsigned lo = 1 + (unsigned)rng_below(r, 2046 - spread);
        for (size_t i = 0; i < n; i++) {
            uint64_t e = lo + rng_below(r, spread + 1);
            f->v[i] = dbl_from_bits(((rng_next(r) & 1) << 63) | (e << 52) | (rng_next(r) & 0xFFFFFFFFFFFFFULL));
        }
        f->v[rng_below(r, n)] = dbl_from_bits(((uint64_t)lo << 52) | (rng_next(r) & 0xFFFFFFFFFFFFFULL));
        size_t top = rng_below(r, n);
        f->v[top] = dbl_from_bits(((uint64_t)(lo + spread) << 52) | (rng_chance(r, 1, 2) ? 0xFFFFFFFFFFFFFULL : (rng_next(r) & 0xFFFFFFFFFFFFFULL)));
        f->kind = "spread-254..256-with-carry";
    }
    if (ak == 4) {
        size_t pos = rng_chance(r, 1, 2) ? (rng_chance(r, 1, 2) ? 0 : n - 1) : rng_below(r, n);
        f->v[pos] = dbl_from_bits(gen_double_bits(r, rng_chance(r, 1, 2) ? 2 : 0, 0));
    }
    unsigned lo = 3000, hi = 0;
    f->has_carry = false;
    for (size_t i = 0; i < n; i++) {
        uint64_t b = dbl_bits(f->v[i]);
        if (is_special_bits(b)) continue;
        unsigned e = (unsigned)((b >> 52) & 0x7FF);
        if (e < lo) lo = e;
        if (e > hi) hi = e;
        if ((b & 0xFFFFFFFFFFFFFULL) >> 47 == 0x1F) f->has_carry = true;
    }
    f->spread255 = hi >= lo && hi - lo > 255;
}

static void check_decoded(const char *api, int prec, int mode, const farr_t *f, const double *dec, double bound, const char *boundwhat) {
    char key[200];
    for (size_t i = 0; i < f->n; i++) {
        uint64_t xb = dbl_bits(f->v[i]), db = dbl_bits(dec[i]);
        const char *cls = NULL;
        if (is_special_bits(xb)) {
            if (xb != db) cls = "special-not-bit-identical";
            unsigned e = (unsigned)((xb >> 52) & 0x7FF);
            uint64_t m = xb & 0xFFFFFFFFFFFFFULL;
            STAT_INC("c07_special_values");
            if (e == 0x7FF && m) STAT_INC("c07_special_nan");
            else if (e == 0x7FF) STAT_INC("c07_special_inf");
            else if (m) STAT_INC("c07_special_subnormal");
            else STAT_INC("c07_special_zero");
        } else if (prec == 0) {
            if (xb != db) cls = "full-not-bit-identical";
        } else {
            long double x = f->v[i], d = dec[i];
            if (isnan(dec[i])) {
                cls = "normal-decoded-as-nan";
            } else if ((xb >> 63) != (db >> 63)) {
                cls = "sign-flipped";
            } else if (isinf(dec[i])) {
                /* allowed only if some value within the bound of x exceeds DBL_MAX */
                long double reach = fabsl(x) * (1.0L + (long double)bound);
                if (!(reach > (long double)DBL_MAX)) cls = "spurious-infinity";
                else STAT_INC("c07_rounded_to_infinity");
            } else {
                long double err = fabsl(d - x);
                if (err > (long double)bound * fabsl(x)) cls = "relative-error-exceeds-bound";
            }
            STAT_INC("c07_lossy_normals_checked");
        }
        if (cls) {
            snprintf(key, sizeof key, "C07:%s/%s/%s:%s", api, PNAME[prec], MNAME[mode], cls);
            viol(key, "index %zu of %zu (%s) x=%a (%016" PRIx64 ") decoded=%a (%016" PRIx64 ") %s=%g spread>255=%d", i, f->n, f->kind, f->v[i], xb, dec[i], db, boundwhat, bound, f->spread255);
            return; /* one report per array */
        }
    }
}

static size_t run_codec(const char *api, const farr_t *f, int prec, int mode, double request, bool check) {
    /* generous scratch: C03 mode checks the advertised bound separately */
    size_t cap = varintFloatMaxEncodedSize(f->n, (varintFloatPrecision)prec) + 64;
    uint8_t *dst = malloc(cap);
    memset(dst, 0xEE, cap);
    varintFloatPrecision sel = (varintFloatPrecision)prec;
    g_ctx = api;
    snprintf(g_sub, sizeof g_sub, "%s n=%zu kind=%s prec=%s mode=%s", api, f->n, f->kind, PNAME[prec], MNAME[mode]);
    size_t ret;
    if (request >= 0) {
        sel = (varintFloatPrecision)77;
        ret = varintFloatEncodeAuto(dst, f->v, f->n, request, (varintFloatEncodingMode)mode, &sel);
        if ((unsigned)sel > 3 || dst[0] != (uint8_t)sel) {
            viol("C07:varintFloatEncodeAuto:selected-precision-disagrees-with-header", "selected %d header %d", (int)sel, dst[0]);
            free(dst);
            return 0;
        }
        prec = (int)sel;
    } else {
        ret = varintFloatEncode(dst, f->v, f->n, (varintFloatPrecision)prec, (varintFloatEncodingMode)mode);
    }
    if (ret == 0 || ret > cap) {
        char key[160];
        snprintf(key, sizeof key, "%s:%s:encoder-refused-or-overran", PROP, api);
        viol(key, "n=%zu returned %zu", f->n, ret);
        free(dst);
        return 0;
    }
    digest_bytes(&g_dig, dst, ret);
    uint8_t *enc = exact_copy(dst, ret);
    double *dec = malloc(f->n * 8);
    g_ctx = "varintFloatDecode";
    size_t used = varintFloatDecode(enc, f->n, dec);
    if (used != ret) {
        char key[160];
        snprintf(key, sizeof key, "%s:varintFloatDecode/%s/%s:consumed-differs-from-written", strcmp(PROP, "C16") ? "C07" : "C16", PNAME[prec], MNAME[mode]);
        viol(key, "n=%zu kind=%s encoder wrote %zu decoder consumed %zu", f->n, f->kind, ret, used);
    } else {
        STAT_INC("c16_float_consumed_checked");
    }
    if (check && used == ret) {
        double bound = request >= 0 ? request : varintFloatPrecisionMaxRelativeError((varintFloatPrecision)prec);
        check_decoded(api, prec, mode, f, dec, bound, request >= 0 ? "requested" : "published-bound");
    }
    g_cell[prec][mode]++;
    g_sub[0] = 0;
    free(dec);
    free(enc);
    free(dst);
    return ret;
}

static double gen_request(rng_t *r) {
    switch (rng_below(r, 6)) {
    case 0: return ldexp(1.0, -23) * (1.0 + (double)rng_below(r, 4000));       /* 2^-23 .. 5e-4 */
    case 1: return ldexp(1.0, -10) * (1.0 + (double)rng_below(r, 29) * 0.999); /* 2^-10 .. 0.03 */
    case 2: return ldexp(1.0, -4) * (1.0 + (double)rng_below(r, 15) * 0.999);  /* 2^-4 .. 1 */
    case 3: return 1e-10 * (1.0 + (double)rng_below(r, 1190));                 /* 1e-10 .. 2^-23 */
    case 4: return pow(10.0, -17.0 + 17.0 * (double)rng_below(r, 100000) / 100000.0);
    default: {
        static const double edge[] = {1e-10, 5e-4, 0.03, 0x1p-23, 0x1p-10, 0x1p-4, 0.999, 1e-17};
        return edge[rng_below(r, 8)];
    }
    }
}

static void c07_case(uint64_t idx, rng_t *r) {
    farr_t f;
    size_t maxn = g_param[0] ? g_param[0] : 600;
    g_exact_n = 0;
    if (g_param[1] && idx % g_param[1] == g_param[1] - 1) {
        /* long arrays around the 15/16/17-bit element-count boundaries */
        static const size_t bl[] = {32766, 32767, 32768, 32769, 40000, 65534, 65535, 65536, 65537, 70000, 98304, 100000, 131071, 131072, 131073, 200000};
        maxn = 200000;
        if (rng_chance(r, 3, 4)) g_exact_n = bl[rng_below(r, sizeof bl / sizeof bl[0])];
        STAT_INC("c07_long_arrays");
    }
    make_farr(r, &f, maxn);
    g_exact_n = 0;
    uint64_t sig = f.n;
    bool nontriv = false;
    for (size_t i = 0; i < f.n; i++) {
        sig = (sig ^ dbl_bits(f.v[i])) * 0x100000001b3ULL;
        if (!is_special_bits(dbl_bits(f.v[i])) && (dbl_bits(f.v[i]) & 0xFFFFFFFFFFFFFULL)) nontriv = true;
    }
    if (distinct_add(&g_distinct, sig) && nontriv) STAT_INC("distinct_nontrivial");
    if (f.spread255) STAT_INC("c07_arrays_spread_over_255");
    if (f.has_carry) STAT_INC("c07_arrays_with_carry_mantissas");
    for (int prec = 0; prec < 4; prec++) {
        for (int mode = 0; mode < 3; mode++) {
            run_codec("varintFloatEncode", &f, prec, mode, -1.0, true);
        }
    }
    for (int k = 0; k < 3; k++) {
        double req = gen_request(r);
        run_codec("varintFloatEncodeAuto", &f, 0, (int)rng_below(r, 3), req, true);
        STAT_INC("c07_auto_requests");
    }
    if (want_sample() && nontriv) sample("{\"kind\":\"%s\",\"n\":%zu,\"first\":\"%a\",\"spread_over_255\":%d}", f.kind, f.n, f.v[0], f.spread255);
    STAT_INC("c07_arrays");
    free(f.v);
}

static void c03_case(uint64_t idx, rng_t *r) {
    (void)idx;
    farr_t f;
    make_farr(r, &f, 300);
    int prec = (int)rng_below(r, 4), mode = (int)rng_below(r, 3);
    size_t N = varintFloatMaxEncodedSize(f.n, (varintFloatPrecision)prec);
    gbuf_t gb;
    gbuf_alloc(&gb, N, 4096, (uint8_t)(idx + 3));
    g_ctx = "varintFloatEncode";
    snprintf(g_sub, sizeof g_sub, "n=%zu advertised=%zu prec=%s mode=%s kind=%s", f.n, N, PNAME[prec], MNAME[mode], f.kind);
    size_t ret = varintFloatEncode(gb.p, f.v, f.n, (varintFloatPrecision)prec, (varintFloatEncodingMode)mode);
    g_sub[0] = 0;
    long dmg = gbuf_check(&gb);
    if (dmg != -1) viol("C03:float:write-past-advertised-size", "n=%zu advertised %zu damaged offset %ld", f.n, N, dmg);
    if (ret > N) viol("C03:float:returned-length-exceeds-advertised-size", "n=%zu advertised %zu returned %zu", f.n, N, ret);
    if (ret && ret <= N && ret * 1000 / N > g_ratio_permille) g_ratio_permille = ret * 1000 / N;
    if (f.n >= 2) STAT_INC("distinct_nontrivial");
    STAT_INC("c03_float_encodes");
    STAT_INC("codec.float");
    gbuf_free(&gb);
    free(f.v);
}

static void c16_case(uint64_t idx, rng_t *r) {
    (void)idx;
    farr_t f;
    make_farr(r, &f, 400);
    run_codec("varintFloatEncode", &f, (int)rng_below(r, 4), (int)rng_below(r, 3), -1.0, false);
    if (f.n >= 2) STAT_INC("distinct_nontrivial");
    free(f.v);
}

int main(int argc, char **argv) {
    parse_args(argc, argv);
    install_handlers();
    gen_init();
    distinct_init(&g_distinct, 20);
    digest_init(&g_dig);
    if (!strcmp(g_mode, "c07")) {
        PROP = "C07";
        CASE_LOOP(c07_case);
    } else if (!strcmp(g_mode, "c03")) {
        PROP = "C03";
        CASE_LOOP(c03_case);
    } else if (!strcmp(g_mode, "c16")) {
        PROP = "C16";
        CASE_LOOP(c16_case);
    } else {
        return 2;
    }
    for (int p = 0; p < 4; p++)
        for (int m = 0; m < 3; m++)
            if (g_cell[p][m]) printf("STAT cell.%s.%s %" PRIu64 "\n", PNAME[p], MNAME[m], g_cell[p][m]);
    if (g_ratio_permille) printf("MAX ratio_permille.float %" PRIu64 "\n", g_ratio_permille);
    digest_print("float", &g_dig);
    fflush(stdout);
    return 0;
}
