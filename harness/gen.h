/* gen.h — boundary-biased generators for values, arrays and doubles */
#ifndef VERIF_GEN_H
#define VERIF_GEN_H
#include "common.h"

/* ------------------------------------------------------------- values */
#define GEN_NBASES 13
static uint64_t g_bound[GEN_NBASES * 65];
static int g_nbound = 0;
static void gen_init(void) {
    /* level offsets of every family (written here as plain numbers, taken
     * from the documentation tables), combined with every power of two */
    static const uint64_t bases[GEN_NBASES] = {0,  240,      2287,  67823,   63,        16446, 4210749,
                                               64, 16447,    4210750, 16383, 4210686, 1077952509};
    g_nbound = 0;
    for (int b = 0; b < GEN_NBASES; b++) {
        for (int k = 0; k <= 64; k++) {
            uint64_t p = k == 64 ? 0 : (1ULL << k);
            g_bound[g_nbound++] = bases[b] + p - 1;
        }
    }
}
static inline uint64_t gen_bitlen(rng_t *r) {
    unsigned b = (unsigned)rng_below(r, 65);
    if (b == 0) {
        return 0;
    }
    uint64_t v = rng_next(r);
    if (b < 64) {
        v &= (1ULL << b) - 1;
        v |= 1ULL << (b - 1);
    } else {
        v |= 1ULL << 63;
    }
    return v;
}
static inline uint64_t gen_small_delta(rng_t *r) {
    switch (rng_below(r, 4)) {
    case 0:
        return 0;
    case 1:
        return rng_below(r, 3);
    case 2:
        return rng_below(r, 300);
    default:
        return rng_below(r, 70000);
    }
}
static uint64_t gen_value(rng_t *r) {
    uint64_t v;
    switch (rng_below(r, 10)) {
    case 0:
    case 1: { /* family boundary +- delta */
        v = g_bound[rng_below(r, (uint64_t)g_nbound)];
        uint64_t d = gen_small_delta(r);
        return rng_chance(r, 1, 2) ? v + d : v - d;
    }
    case 2: { /* power of two +- delta */
        v = 1ULL << rng_below(r, 64);
        uint64_t d = gen_small_delta(r);
        return rng_chance(r, 1, 2) ? v + d : v - d;
    }
    case 3:
    case 4:
    case 5:
    case 6:
        return gen_bitlen(r);
    case 7:
        return rng_next(r);
    case 8: /* bytes mostly 0x00/0xff/0x80/0x7f: carries and sign edges */
        v = 0;
        for (int i = 0; i < 8; i++) {
            static const uint8_t pick[6] = {0, 0xff, 0x80, 0x7f, 1, 0xfe};
            uint8_t b = rng_chance(r, 1, 5) ? (uint8_t)rng_next(r) : pick[rng_below(r, 6)];
            v |= (uint64_t)b << (8 * i);
        }
        return v >> (8 * rng_below(r, 8));
    default:
        return rng_below(r, 70000);
    }
}

/* ------------------------------------------------------------- arrays */
/* straddling lengths from the property text */
static const uint32_t GEN_LENS[] = {1,    2,    3,    7,    8,    9,    15,   16,    17,    31,    32,    33,
                                    63,   64,   65,   127,  128,  129,  240,  241,   255,   256,   257,   383,
                                    384,  385,  511,  512,  513,  1000, 2287, 2288,  4095,  4096,  4097};
#define GEN_NLENS (sizeof(GEN_LENS) / sizeof(GEN_LENS[0]))
static const uint32_t GEN_BIGLENS[] = {8191, 8192, 8193, 9999, 10000, 10001, 12288, 16384, 20000, 32768, 65535, 65536, 65537, 67823, 67824, 69632};
#define GEN_NBIGLENS (sizeof(GEN_BIGLENS) / sizeof(GEN_BIGLENS[0]))

static size_t gen_len(rng_t *r, size_t maxlen) {
    size_t n;
    switch (rng_below(r, 4)) {
    case 0:
        n = GEN_LENS[rng_below(r, GEN_NLENS)];
        break;
    case 1:
        n = 1 + rng_below(r, 40);
        break;
    case 2:
        n = 1 + rng_below(r, 600);
        break;
    default:
        n = 1 + rng_below(r, maxlen);
        break;
    }
    if (n > maxlen) {
        n = 1 + n % maxlen;
    }
    return n;
}

/* value with exactly the given number of significant bits (0 => 0) */
static inline uint64_t gen_bits_exact(rng_t *r, unsigned b) {
    if (b == 0) {
        return 0;
    }
    uint64_t v = rng_next(r);
    if (b < 64) {
        v &= (1ULL << b) - 1;
    }
    return v | (1ULL << (b - 1));
}
static inline uint64_t gen_upto_bits(rng_t *r, unsigned b) {
    if (b == 0) {
        return 0;
    }
    uint64_t v = rng_next(r);
    return b < 64 ? (v & ((1ULL << b) - 1)) : v;
}

enum {
    AM_CONST,
    AM_ASC_SMALL,
    AM_ASC_LARGE,
    AM_STRICT16,
    AM_DESC,
    AM_FEWUNIQ,
    AM_UNIQUE9,
    AM_CLUSTER_OUT,
    AM_RANGE_MARKER,
    AM_PERIODIC,
    AM_BIGBASE,
    AM_FULL64,
    AM_BITWIDTH,
    AM_RUNS,
    AM_MIXTURE,
    AM_NMODELS
};
static const char *const AM_NAMES[AM_NMODELS] = {"const",   "asc_small", "asc_large",    "strict16",     "desc",
                                                 "fewuniq", "unique9",   "cluster_out",  "range_marker", "periodic",
                                                 "bigbase", "full64",    "bitwidth",     "runs",         "mixture"};

/* Fill a[0..n) according to model m; maxbits caps every value to that many
 * bits (64 or 32). */
static void gen_array_model(rng_t *r, int m, uint64_t *a, size_t n, unsigned maxbits) {
    uint64_t cap = maxbits >= 64 ? UINT64_MAX : ((1ULL << maxbits) - 1);
    switch (m) {
    case AM_CONST: {
        uint64_t v = gen_value(r) & cap;
        for (size_t i = 0; i < n; i++) {
            a[i] = v;
        }
        break;
    }
    case AM_ASC_SMALL: {
        uint64_t v = rng_chance(r, 1, 2) ? rng_below(r, 1000) : (gen_value(r) & cap) >> 1;
        uint64_t md = 1 + rng_below(r, 1 + rng_below(r, 2000));
        for (size_t i = 0; i < n; i++) {
            a[i] = v;
            uint64_t d = rng_below(r, md + 1);
            v = (v + d < v || v + d > cap) ? v : v + d;
        }
        break;
    }
    case AM_ASC_LARGE: {
        unsigned db = 8 + (unsigned)rng_below(r, maxbits - 8);
        uint64_t v = gen_upto_bits(r, db);
        for (size_t i = 0; i < n; i++) {
            a[i] = v;
            uint64_t d = gen_upto_bits(r, db);
            v = (v + d < v || v + d > cap) ? v : v + d;
        }
        break;
    }
    case AM_STRICT16: { /* strictly ascending below 65536 */
        uint64_t v = rng_below(r, 100);
        uint64_t step = 1 + 65000 / (n + 1);
        for (size_t i = 0; i < n; i++) {
            a[i] = v & 0xffff;
            v += 1 + rng_below(r, step);
            if (v > 65535) {
                v = 65535;
            }
        }
        /* enforce strictness at the clamp */
        for (size_t i = 1; i < n; i++) {
            if (a[i] <= a[i - 1]) {
                a[i] = a[i - 1] + 1;
            }
        }
        break;
    }
    case AM_DESC: {
        uint64_t v = rng_chance(r, 1, 2) ? (n + rng_below(r, 60000)) : (gen_value(r) & cap);
        uint64_t md = 1 + rng_below(r, 50);
        for (size_t i = 0; i < n; i++) {
            a[i] = v;
            uint64_t d = rng_chance(r, 1, 8) ? 0 : 1 + rng_below(r, md);
            v = v >= d ? v - d : 0;
        }
        break;
    }
    case AM_FEWUNIQ: {
        uint64_t u[64];
        unsigned nu = 1 + (unsigned)rng_below(r, rng_chance(r, 1, 2) ? 8 : 64);
        for (unsigned i = 0; i < nu; i++) {
            u[i] = gen_value(r) & cap;
        }
        for (size_t i = 0; i < n; i++) {
            a[i] = u[rng_below(r, nu)];
        }
        break;
    }
    case AM_UNIQUE9: {
        for (size_t i = 0; i < n; i++) {
            a[i] = ((rng_next(r) | (1ULL << 63)) & cap) | (maxbits < 64 ? (1ULL << (maxbits - 1)) : 0);
        }
        break;
    }
    case AM_CLUSTER_OUT: {
        uint64_t base = gen_value(r) & (cap >> 1);
        unsigned cb = 1 + (unsigned)rng_below(r, 20);
        unsigned rate = (unsigned)rng_below(r, 16); /* outliers per 128 */
        for (size_t i = 0; i < n; i++) {
            if (rng_below(r, 128) < rate) {
                a[i] = gen_value(r) & cap;
            } else {
                uint64_t v = base + gen_upto_bits(r, cb);
                a[i] = (v < base || v > cap) ? base : v;
            }
        }
        if (rng_chance(r, 1, 3) && n > 2) { /* outliers at the highest indices */
            a[n - 1] = cap - rng_below(r, 3);
            a[n - 2] = cap >> rng_below(r, 8);
        }
        break;
    }
    case AM_RANGE_MARKER: { /* range exactly 2^(8k)-1: offsets equal to an all-ones byte string */
        unsigned k = 1 + (unsigned)rng_below(r, maxbits / 8);
        uint64_t range = k * 8 >= 64 ? UINT64_MAX : ((1ULL << (8 * k)) - 1);
        uint64_t base = range >= cap ? 0 : (gen_value(r) % (cap - range + 1));
        for (size_t i = 0; i < n; i++) {
            uint64_t o = rng_chance(r, 1, 6) ? range : (rng_chance(r, 1, 2) ? rng_below(r, 300) : gen_value(r));
            if (o > range) {
                o %= (range + 1);
            }
            a[i] = base + o;
        }
        a[rng_below(r, n)] = base;
        a[rng_below(r, n)] = base + range;
        if (n >= 24 && k * 8 < maxbits && rng_chance(r, 1, 2)) {
            /* a few values (fewer than 5%, 1% or 10%) above the all-ones offset: some fit one more byte, some are far away */
            uint64_t room = cap - (base + range);
            size_t outliers = 1 + rng_below(r, n / (rng_chance(r, 1, 2) ? 25 : 120) + 1);
            for (size_t j = 0; j < outliers && room; j++) {
                uint64_t above = rng_chance(r, 2, 3) ? 1 + rng_below(r, range < (1ULL << 40) ? range * 200 + 1 : range) : gen_value(r);
                if (above > room) above = 1 + above % room;
                a[rng_below(r, n)] = base + range + above;
            }
            a[rng_below(r, n)] = base;
        }
        break;
    }
    case AM_PERIODIC: { /* every period-th element equal, the rest unique */
        static const unsigned periods[] = {2, 5, 10, 20, 100};
        unsigned p = periods[rng_below(r, 5)];
        uint64_t same = gen_value(r) & cap;
        for (size_t i = 0; i < n; i++) {
            a[i] = (i % p == 0) ? same : ((rng_next(r) | (1ULL << 62)) & cap);
        }
        break;
    }
    case AM_BIGBASE: { /* min needs 2..9 tagged bytes, small spread */
        unsigned bb = 8 + (unsigned)rng_below(r, maxbits - 8);
        uint64_t base = gen_bits_exact(r, bb) & cap;
        unsigned sb = (unsigned)rng_below(r, 18);
        for (size_t i = 0; i < n; i++) {
            uint64_t v = base + gen_upto_bits(r, sb);
            a[i] = (v < base || v > cap) ? base : v;
        }
        break;
    }
    case AM_FULL64: {
        for (size_t i = 0; i < n; i++) {
            a[i] = rng_next(r) & cap;
        }
        if (n >= 2 && rng_chance(r, 1, 2)) {
            a[rng_below(r, n)] = 0;
            a[rng_below(r, n)] = cap;
        }
        break;
    }
    case AM_BITWIDTH: { /* all values with at most b bits, b uniform: bit-width boundaries */
        unsigned b = (unsigned)rng_below(r, maxbits + 1);
        if (rng_chance(r, 1, 2)) { /* widths that fill a whole number of bytes (top bit of the last byte in use) */
            unsigned k = 1 + (unsigned)rng_below(r, maxbits / 8);
            unsigned d = (unsigned)rng_below(r, 3);
            b = 8 * k - d;
        }
        uint64_t bbase = rng_chance(r, 1, 2) ? 0 : (b < maxbits ? gen_upto_bits(r, maxbits - b > 20 ? 20 : maxbits - b) : 0);
        for (size_t i = 0; i < n; i++) {
            a[i] = bbase + gen_upto_bits(r, b);
        }
        if (b) {
            size_t pos0 = rng_below(r, n);
            a[pos0] = bbase; /* pin the minimum so the offsets really span b bits */
        }
        if (b) {
            size_t pos = rng_below(r, n);
            a[pos] = bbase + gen_bits_exact(r, b);
        }
        break;
    }
    case AM_RUNS: {
        size_t i = 0;
        while (i < n) {
            uint64_t v = rng_chance(r, 1, 2) ? rng_below(r, 300) : (gen_value(r) & cap);
            size_t run = 1 + (rng_chance(r, 1, 4) ? rng_below(r, 400) : rng_below(r, 6));
            if (rng_chance(r, 1, 40)) {
                run = 120 + rng_below(r, 20); /* straddle 127/128 */
            }
            for (size_t j = 0; j < run && i < n; j++) {
                a[i++] = v;
            }
        }
        break;
    }
    default:
        for (size_t i = 0; i < n; i++) {
            a[i] = gen_value(r) & cap;
        }
        break;
    }
}

/* ------------------------------------------------------------ doubles */
static inline double dbl_from_bits(uint64_t b) {
    double d;
    memcpy(&d, &b, 8);
    return d;
}
static inline uint64_t dbl_bits(double d) {
    uint64_t b;
    memcpy(&b, &d, 8);
    return b;
}
#endif
