/* drv_packed.c — C09: packed bit arrays, every legal instantiation of varintPacked.h.
 * case g -> instantiation g % NPK; sub-test alternates isolation / sorted history / positional history. */
#include "common.h"
#include "gen.h"

typedef struct {
    const char *name;
    int bits, slotbits, compact, maxel;
    void (*set)(void *, uint32_t, uint32_t);
    uint32_t (*get)(const void *, uint32_t);
    void (*half)(void *, uint32_t);
    void (*incr)(void *, uint32_t, int64_t);
    void (*insert)(void *, uint32_t, uint32_t, uint32_t);
    void (*inssorted)(void *, uint32_t, uint32_t);
    void (*del)(void *, uint32_t, uint32_t);
    bool (*delmember)(void *, uint32_t, uint32_t);
    int64_t (*member)(const void *, uint32_t, uint32_t);
    uint32_t (*bsearch)(const void *, uint32_t, uint32_t);
} pk_t;
#include "packed_inst.h"
#include <sys/mman.h>

static uint64_t g_inst_cases[256], g_oneslot[256], g_twoslot[256];

#define PFAIL(P, entry, cls, ...)                                                                                      \
    do {                                                                                                               \
        char _k[200];                                                                                                  \
        snprintf(_k, sizeof _k, "C09:%s.%s:%s", (P)->name, entry, cls);                                                \
        viol(_k, __VA_ARGS__);                                                                                         \
    } while (0)

static inline uint32_t vmask(const pk_t *P) { return P->bits == 32 ? 0xffffffffu : ((1u << P->bits) - 1); }
/* storage bytes for n elements: whole slots */
static size_t storage_bytes(const pk_t *P, size_t n) {
    size_t bits = n * (size_t)P->bits;
    size_t slots = (bits + (size_t)P->slotbits - 1) / (size_t)P->slotbits;
    return slots * (size_t)(P->slotbits / 8);
}
/* documented layout: LSB-first within a slot; on this little-endian host stream bit p is byte p/8 bit p%8 */
static inline uint32_t model_get(const uint8_t *st, const pk_t *P, size_t i) {
    uint64_t p = (uint64_t)i * (uint64_t)P->bits;
    uint32_t v = 0;
    for (int b = 0; b < P->bits; b++, p++) v |= (uint32_t)((st[p >> 3] >> (p & 7)) & 1) << b;
    return v;
}
static inline void model_set(uint8_t *st, const pk_t *P, size_t i, uint32_t v) {
    uint64_t p = (uint64_t)i * (uint64_t)P->bits;
    for (int b = 0; b < P->bits; b++, p++) {
        st[p >> 3] = (uint8_t)((st[p >> 3] & ~(1u << (p & 7))) | (((v >> b) & 1u) << (p & 7)));
    }
}
static uint32_t gen_pvalue(rng_t *r, const pk_t *P) {
    uint32_t m = vmask(P);
    switch (rng_below(r, 6)) {
    case 0: return 0;
    case 1: return m;
    case 2: return (1u << rng_below(r, (uint64_t)P->bits)) & m;
    case 3: return 0xAAAAAAAAu & m;
    case 4: return 0x55555555u & m;
    default: return (uint32_t)rng_next(r) & m;
    }
}
static void note_span(const pk_t *P, size_t pi, size_t i) {
    size_t start = (i * (size_t)P->bits) % (size_t)P->slotbits;
    if (start + (size_t)P->bits > (size_t)P->slotbits) g_twoslot[pi]++;
    else g_oneslot[pi]++;
}

/* ---------------------------------------------------------------- isolation */
static void isolation_case(const pk_t *P, size_t pi, rng_t *r) {
    static const size_t ns[] = {1, 2, 3, 4, 5, 7, 8, 9, 15, 16, 17, 31, 32, 33, 63, 64, 65, 100, 1000};
    size_t n = ns[rng_below(r, sizeof ns / sizeof ns[0])];
    if (rng_chance(r, 1, 3)) n = 1 + rng_below(r, 70);
    if (rng_chance(r, 1, 16)) n = 65530 + rng_below(r, 5000); /* indices beyond 16 bits */
    if (P->maxel && n > (size_t)P->maxel) n = (size_t)P->maxel;
    size_t nb = storage_bytes(P, n);
    gbuf_t gb;
    gbuf_alloc(&gb, nb, 64, (uint8_t)(n * 3 + 1));
    rng_fill(r, gb.p, nb);
    uint8_t *expect = malloc(nb);
    int steps = 24 + (int)rng_below(r, 40);
    for (int t = 0; t < steps; t++) {
        size_t i = rng_chance(r, 1, 4) ? (rng_chance(r, 1, 2) ? 0 : n - 1) : rng_below(r, n);
        if (n > 65536 && rng_chance(r, 1, 2)) i = 65536 + rng_below(r, n - 65536);
        if (i > 65535) STAT_INC("c09_accesses_beyond_index_65535");
        int what = (int)rng_below(r, 8);
        memcpy(expect, gb.p, nb);
        uint32_t cur = model_get(gb.p, P, i);
        note_span(P, pi, i);
        if (what < 5) {
            uint32_t v = gen_pvalue(r, P);
            model_set(expect, P, i, v);
            g_ctx = "Set";
            snprintf(g_sub, sizeof g_sub, "%s n=%zu i=%zu v=%u", P->name, n, i, v);
            P->set(gb.p, (uint32_t)i, v);
            g_ctx = "Get";
            uint32_t back = P->get(gb.p, (uint32_t)i);
            if (back != v) {
                PFAIL(P, "Set", "read-back-differs-from-written", "n=%zu i=%zu wrote %u read %u", n, i, v, back);
                break;
            }
            if (memcmp(expect, gb.p, nb)) {
                size_t bad = 0;
                while (expect[bad] == gb.p[bad]) bad++;
                PFAIL(P, "Set", "changed-bits-outside-element", "n=%zu i=%zu v=%u: storage byte %zu is %02x, expected %02x (element occupies bits %zu..%zu)", n, i, v, bad, gb.p[bad], expect[bad], i * (size_t)P->bits, (i + 1) * (size_t)P->bits - 1);
                break;
            }
            STAT_INC("c09_sets");
        } else if (what < 7) {
            uint32_t room = vmask(P) - cur;
            int64_t by = room ? (int64_t)rng_below(r, (uint64_t)room + 1) : 0;
            if (rng_chance(r, 1, 3)) by = by > 3 ? (int64_t)rng_below(r, 3) : by;
            model_set(expect, P, i, cur + (uint32_t)by);
            g_ctx = "SetIncr";
            snprintf(g_sub, sizeof g_sub, "%s n=%zu i=%zu cur=%u by=%" PRId64, P->name, n, i, cur, by);
            P->incr(gb.p, (uint32_t)i, by);
            if (memcmp(expect, gb.p, nb)) {
                PFAIL(P, "SetIncr", P->get(gb.p, (uint32_t)i) != cur + (uint32_t)by ? "stored-value-wrong" : "changed-bits-outside-element", "n=%zu i=%zu cur=%u by=%" PRId64 " now %u", n, i, cur, by, P->get(gb.p, (uint32_t)i));
                break;
            }
            STAT_INC("c09_incrs");
        } else {
            model_set(expect, P, i, cur / 2);
            g_ctx = "SetHalf";
            snprintf(g_sub, sizeof g_sub, "%s n=%zu i=%zu cur=%u", P->name, n, i, cur);
            P->half(gb.p, (uint32_t)i);
            if (memcmp(expect, gb.p, nb)) {
                PFAIL(P, "SetHalf", P->get(gb.p, (uint32_t)i) != cur / 2 ? "stored-value-wrong" : "changed-bits-outside-element", "n=%zu i=%zu cur=%u now %u", n, i, cur, P->get(gb.p, (uint32_t)i));
                break;
            }
            STAT_INC("c09_halves");
        }
        if (gbuf_check(&gb) != -1) {
            PFAIL(P, "Set", "wrote-outside-storage", "n=%zu i=%zu", n, i);
            break;
        }
        /* all elements readable and equal to the bit model */
        if ((t & 7) == 0) {
            g_ctx = "Get";
            for (size_t j = 0; j < n; j++) {
                if (P->get(gb.p, (uint32_t)j) != model_get(gb.p, P, j)) {
                    PFAIL(P, "Get", "read-differs-from-documented-layout", "n=%zu j=%zu", n, j);
                    t = steps;
                    break;
                }
            }
        }
    }
    g_sub[0] = 0;
    free(expect);
    gbuf_free(&gb);
}

/* ------------------------------------------------------------ histories */
static int cmp_u32(const void *a, const void *b) {
    uint32_t x = *(const uint32_t *)a, y = *(const uint32_t *)b;
    return (x > y) - (x < y);
}
static bool compare_all(const pk_t *P, const void *st, const uint32_t *m, uint32_t len, const char *op, int step) {
    for (uint32_t j = 0; j < len; j++) {
        uint32_t v = P->get(st, j);
        if (v != m[j]) {
            PFAIL(P, op, "array-differs-from-reference", "step %d len %u index %u library %u reference %u", step, len, j, v, m[j]);
            return false;
        }
    }
    return true;
}
static void history_case(const pk_t *P, size_t pi, rng_t *r, bool sorted) {
    (void)pi;
    uint32_t cap = 8 + (uint32_t)rng_below(r, 200);
    uint32_t start = 0;
    if (P->maxel && rng_chance(r, 2, 3)) {
        /* a narrow length type filled beyond half of its range, up to its documented maximum */
        cap = (uint32_t)P->maxel;
        start = cap - 1 - (uint32_t)rng_below(r, cap / 3 + 1);
    } else if (!P->maxel && rng_chance(r, 1, 60)) {
        /* default (32-bit) length type with more than 65536 elements */
        cap = 65536 + (uint32_t)rng_below(r, 6000);
        start = cap - 1 - (uint32_t)rng_below(r, 300);
    }
    if (cap > 208 && P->maxel == 0 && (size_t)cap * (size_t)P->bits / 8 > (1u << 20)) { cap = 208; start = 0; }
    size_t nb = storage_bytes(P, cap);
    gbuf_t gb;
    gbuf_alloc(&gb, nb, 64, (uint8_t)(cap + 9));
    rng_fill(r, gb.p, nb);
    uint32_t *m = malloc((cap + 1) * 4);
    uint32_t len = 0;
    if (start) { /* prefilled through Set (C09's isolation sub-test covers Set itself) */
        for (uint32_t i = 0; i < start; i++) m[i] = gen_pvalue(r, P);
        if (sorted) qsort(m, start, 4, cmp_u32);
        for (uint32_t i = 0; i < start; i++) P->set(gb.p, i, m[i]);
        len = start;
        STAT_INC(P->maxel ? "c09_histories_near_the_maximum_of_a_narrow_length_type" : "c09_histories_over_65536_elements");
    }
    uint32_t pool[12];
    uint32_t np = 1 + (uint32_t)rng_below(r, 12);
    for (uint32_t i = 0; i < np; i++) pool[i] = gen_pvalue(r, P);
    int nops = 50 + (int)rng_below(r, 251);
    if (start > 5000) nops = 20 + (int)rng_below(r, 60); /* every step re-reads the whole array */
    bool ok = true;
    for (int t = 0; t < nops && ok; t++) {
        uint32_t v = rng_chance(r, 2, 3) ? pool[rng_below(r, np)] : gen_pvalue(r, P);
        int op = (int)rng_below(r, sorted ? 6 : 3);
        if (sorted && op >= 2 && op <= 4 && P->bits != 8 && P->bits != 16 && P->bits != 32 && rng_chance(r, 1, 5)) {
            /* a query key outside the element domain (the value type is wider than the packed width): its low bits equal
             * a stored or pooled element, but no element equals it */
            uint32_t vbits = P->bits <= 8 ? 8 : P->bits <= 16 ? 16 : 32;
            uint32_t hi = 1 + (uint32_t)rng_below(r, (1ull << (vbits - (uint32_t)P->bits)) - 1);
            v = (len && rng_chance(r, 1, 2) ? m[rng_below(r, len)] : v) | (hi << P->bits);
            STAT_INC("c09_queries_with_keys_outside_the_element_domain");
        }
        snprintf(g_sub, sizeof g_sub, "%s cap=%u len=%u step=%d", P->name, cap, len, t);
        if (sorted) {
            switch (op) {
            case 0:
            case 1: /* sorted insert */
                if (len >= cap) break;
                g_ctx = "InsertSorted";
                P->inssorted(gb.p, len, v);
                {
                    uint32_t pos = 0;
                    while (pos < len && m[pos] < v) pos++;
                    memmove(m + pos + 1, m + pos, (len - pos) * 4);
                    m[pos] = v;
                    len++;
                }
                ok = compare_all(P, gb.p, m, len, "InsertSorted", t);
                STAT_INC("c09_sorted_inserts");
                break;
            case 2: { /* delete member (also on an empty array: nothing to delete, the count stays 0) */
                if (!len) STAT_INC("c09_delete_member_on_empty_array");
                g_ctx = "DeleteMember";
                bool lib = P->delmember(gb.p, len, v);
                uint32_t pos = 0;
                while (pos < len && m[pos] < v) pos++;
                bool has = pos < len && m[pos] == v;
                if (lib != has) {
                    PFAIL(P, "DeleteMember", "result-differs-from-reference", "step %d v=%u library %d reference %d", t, v, lib, has);
                    ok = false;
                    break;
                }
                if (has) {
                    memmove(m + pos, m + pos + 1, (len - pos - 1) * 4);
                    len--;
                }
                ok = compare_all(P, gb.p, m, len, "DeleteMember", t);
                STAT_INC("c09_delete_members");
                break;
            }
            case 3: { /* membership: first equal element or -1 */
                g_ctx = "Member";
                int64_t lib = P->member(gb.p, len, v);
                int64_t want = -1;
                for (uint32_t j = 0; j < len; j++) {
                    if (m[j] == v) {
                        want = j;
                        break;
                    }
                }
                if (lib != want) {
                    PFAIL(P, "Member", "not-first-equal-element", "step %d len %u v=%u library %" PRId64 " reference %" PRId64, t, len, v, lib, want);
                    ok = false;
                }
                STAT_INC("c09_member_queries");
                break;
            }
            case 4: { /* lower bound */
                g_ctx = "BinarySearch";
                uint32_t lib = P->bsearch(gb.p, len, v);
                uint32_t want = 0;
                while (want < len && m[want] < v) want++;
                if (lib != want) {
                    PFAIL(P, "BinarySearch", "not-lower-bound", "step %d len %u v=%u library %u reference %u", t, len, v, lib, want);
                    ok = false;
                }
                STAT_INC("c09_lower_bound_queries");
                break;
            }
            default: { /* positional delete keeps order */
                if (!len) break;
                uint32_t pos = (uint32_t)rng_below(r, len);
                g_ctx = "Delete";
                P->del(gb.p, len, pos);
                memmove(m + pos, m + pos + 1, (len - pos - 1) * 4);
                len--;
                ok = compare_all(P, gb.p, m, len, "Delete", t);
                break;
            }
            }
        } else {
            switch (op) {
            case 0:
            case 1: {
                if (len >= cap) break;
                uint32_t pos = (uint32_t)rng_below(r, (uint64_t)len + 1);
                g_ctx = "Insert";
                P->insert(gb.p, len, pos, v);
                memmove(m + pos + 1, m + pos, (len - pos) * 4);
                m[pos] = v;
                len++;
                ok = compare_all(P, gb.p, m, len, "Insert", t);
                STAT_INC("c09_positional_inserts");
                break;
            }
            default: {
                if (!len) break;
                uint32_t pos = rng_chance(r, 1, 4) ? len - 1 : (uint32_t)rng_below(r, len);
                g_ctx = "Delete";
                P->del(gb.p, len, pos);
                memmove(m + pos, m + pos + 1, (len - pos - 1) * 4);
                len--;
                ok = compare_all(P, gb.p, m, len, "Delete", t);
                STAT_INC("c09_positional_deletes");
                break;
            }
            }
        }
        if (ok && gbuf_check(&gb) != -1) {
            PFAIL(P, g_ctx, "wrote-outside-storage", "step %d len %u cap %u", t, len, cap);
            ok = false;
        }
    }
    if (ok && sorted) { /* still sorted */
        uint32_t *s2 = malloc((len + 1) * 4);
        memcpy(s2, m, len * 4);
        qsort(s2, len, 4, cmp_u32);
        if (memcmp(s2, m, len * 4)) PFAIL(P, "history", "reference-not-sorted(harness)", "len %u", len);
        free(s2);
    }
    STAT_INC("c09_histories");
    g_sub[0] = 0;
    free(m);
    gbuf_free(&gb);
}

/* element offsets beyond 2^32 bits: lazily mapped storage, only a few pages touched */
static void huge_index_case(const pk_t *P, rng_t *r) {
    if (P->maxel) return;
    uint64_t first = (((uint64_t)1 << 32) + (uint64_t)P->bits - 1) / (uint64_t)P->bits;
    uint64_t i = first + rng_below(r, 1000);
    if (i > 0xfffffff0ULL) return; /* 32-bit length type */
    size_t bytes = (size_t)(((i + 2) * (uint64_t)P->bits + 63) / 64 * 8) + 4096;
    uint8_t *st = mmap(NULL, bytes, PROT_READ | PROT_WRITE, MAP_PRIVATE | MAP_ANONYMOUS | MAP_NORESERVE, -1, 0);
    if (st == MAP_FAILED) {
        STAT_INC("c09_huge_index_skipped_mmap_failed");
        return;
    }
    uint32_t v = gen_pvalue(r, P) | 1;
    v &= vmask(P);
    g_ctx = "Set";
    snprintf(g_sub, sizeof g_sub, "%s huge index i=%" PRIu64 " v=%u", P->name, i, v);
    P->set(st, (uint32_t)i, v);
    uint32_t back = P->get(st, (uint32_t)i);
    uint32_t stored = model_get(st, P, (size_t)i);
    /* the element that a 32-bit wrap of the bit offset would hit */
    uint64_t wrapped = ((i * (uint64_t)P->bits) & 0xffffffffULL) / (uint64_t)P->bits;
    uint32_t low0 = model_get(st, P, (size_t)wrapped), low1 = model_get(st, P, (size_t)wrapped + 1);
    if (back != v || stored != v) PFAIL(P, "Set", "read-back-differs-from-written", "index %" PRIu64 " (bit offset >= 2^32) wrote %u read %u stored %u", i, v, back, stored);
    else if (low0 || low1) PFAIL(P, "Set", "changed-bits-outside-element", "write at index %" PRIu64 " (bit offset >= 2^32) changed element %" PRIu64, i, wrapped);
    g_sub[0] = 0;
    munmap(st, bytes);
    STAT_INC("c09_huge_index_writes");
}

static void packed_case(uint64_t idx, rng_t *r) {
    uint64_t g = idx * g_nshards + g_shard;
    size_t pi = (size_t)(g % NPK);
    const pk_t *P = &PK[pi];
    g_inst_cases[pi]++;
    int sub = (int)((g / NPK) % 4);
    alarm(30); /* a search or shift loop that never returns is a violation (reported as a hang, re-run once by the orchestrator) */
    if (sub < 2) isolation_case(P, pi, r);
    else history_case(P, pi, r, sub == 2);
    if ((g / NPK) % 8 == 5) huge_index_case(P, r);
    alarm(0);
    STAT_INC("distinct_nontrivial");
    if (want_sample()) sample("{\"instantiation\":\"%s\",\"bits\":%d,\"slot_bits\":%d,\"compact\":%d,\"subtest\":%d}", P->name, P->bits, P->slotbits, P->compact, sub);
}

int main(int argc, char **argv) {
    parse_args(argc, argv);
    install_handlers();
    gen_init();
    CASE_LOOP(packed_case);
    uint64_t ninst = 0, both = 0, needboth = 0;
    for (size_t i = 0; i < NPK; i++) {
        if (g_inst_cases[i]) ninst++;
        printf("STAT inst.%s %" PRIu64 "\n", PK[i].name, g_inst_cases[i]);
        printf("STAT oneslot.%s %" PRIu64 "\n", PK[i].name, g_oneslot[i]);
        printf("STAT twoslot.%s %" PRIu64 "\n", PK[i].name, g_twoslot[i]);
        (void)both;
        (void)needboth;
    }
    printf("MAX instantiations_total %zu\n", (size_t)NPK);
    fflush(stdout);
    return 0;
}
