/* drv_array.c — integer-array codecs.
 *   --mode c02  lossless round trip, random access, decoder needs only the written bytes
 *   --mode c03  encoders stay inside the advertised size
 *   --mode c13  decoders never write beyond the caller's capacity
 *   --mode c16  metadata / header accessors tell the truth
 *   --mode c06  adaptive: lossless whatever it selects (decision-tree generator)
 * --p0 maxlen : largest ordinary array length (default 4097); --p1 : one case in p1 uses a big length
 */
#include "codecs.h"
/* the harness's own buffers (some cases use arrays of tens of millions of elements) */
#define malloc(n) h_alloc_check((malloc)(n), (n))

static const char *PROP = "C02";
static distinct_t g_distinct;
static digest_t g_dig;
static uint64_t g_codec_cases[64];
static uint64_t g_ratio_permille[64];

#define KEY(buf, c, cls) (snprintf(buf, sizeof buf, "%s:%s:%s", PROP, (c)->name, cls), buf)

static uint64_t arr_sig(const codec_t *c, const uint64_t *a, size_t n) {
    uint64_t h = 0x1234567 + (uint64_t)(c - CODECS) * 0x9E3779B97F4A7C15ULL;
    for (size_t i = 0; i < n; i++) {
        h = (h ^ a[i]) * 0x100000001b3ULL;
        h ^= h >> 29;
    }
    return h ^ n;
}
static bool nontrivial(const uint64_t *a, size_t n) {
    if (n < 2) return false;
    for (size_t i = 1; i < n; i++) if (a[i] != a[0]) return true;
    return false;
}
static const char *arr_preview(const uint64_t *a, size_t n) {
    static char b[400];
    int k = 0;
    k += snprintf(b + k, sizeof b - (size_t)k, "[");
    for (size_t i = 0; i < n && i < 8; i++) k += snprintf(b + k, sizeof b - (size_t)k, "%s%" PRIu64, i ? "," : "", a[i]);
    if (n > 8) k += snprintf(b + k, sizeof b - (size_t)k, ",...(%zu)", n);
    snprintf(b + k, sizeof b - (size_t)k, "]");
    return b;
}

/* choose length + model and build an input for codec c */
typedef struct {
    uint64_t *a;    /* ends exactly at the end of a heap block; 16-byte aligned or 8-mod-16 */
    uint64_t *base; /* what to free */
    size_t n;
    int model;
} input_t;
/* (re)allocate in->a for n elements, alternating the alignment of the first element */
static void input_alloc(input_t *in, size_t n, uint64_t salt) {
    size_t shift = (salt >> 5) & 1;
    in->base = malloc((n + shift) * 8);
    in->a = in->base + shift;
    in->n = n;
}
static void make_input(const codec_t *c, uint64_t idx, rng_t *r, input_t *in) {
    size_t maxlen = g_param[0] ? g_param[0] : 4097;
    size_t n = gen_len(r, maxlen);
    if (g_param[1] && (idx % g_param[1]) == g_param[1] - 1) {
        n = GEN_BIGLENS[rng_below(r, GEN_NBIGLENS)];
        n += rng_below(r, 3);
        n -= 1;
    }
    int model = (int)rng_below(r, AM_NMODELS);
    if (c->domain == DOM_GROUP && n > 64) n = 1 + n % 64;
    uint64_t *tmp = malloc((n ? n : 1) * 8);
    gen_array_model(r, model, tmp, n, (unsigned)c->elembits);
    if (n >= 2 && rng_chance(r, 1, 6)) {
        /* sprinkle values equal to derived quantities (count, range, extremes, sums) */
        uint64_t mn = tmp[0], mx = tmp[0];
        for (size_t i = 1; i < n; i++) { if (tmp[i] < mn) mn = tmp[i]; if (tmp[i] > mx) mx = tmp[i]; }
        uint64_t derived[10] = {n, n - 1, n + 1, mx - mn, mn + 1, mx - 1, tmp[0] + tmp[n - 1], (uint64_t)n * 8, mn ^ mx, (mx - mn) >> 1};
        int k = 1 + (int)rng_below(r, 3);
        for (int j = 0; j < k; j++) {
            size_t pos = rng_below(r, n);
            tmp[pos] = derived[rng_below(r, 10)];
        }
        STAT_INC("arrays_with_derived_quantities");
    }
    n = shape_domain(c, r, tmp, n, model);
    input_alloc(in, n, idx * 2654435761u + (uint64_t)model);
    memcpy(in->a, tmp, n * 8);
    free(tmp);
    in->model = model;
}

/* place `nb` encoded bytes where an over-read is observable: the copy ends exactly at the end of a
 * heap block (ASan) and starts at a per-case misalignment of 0..15 bytes */
static size_t g_enc_off = 0;
static uint8_t *g_placed_base[8];
static uint8_t *g_placed_ptr[8];
static uint8_t *place_encoded(const uint8_t *src, size_t nb, uint8_t garbage) {
    size_t off = g_enc_off;
#if VERIF_ASAN
    (void)garbage;
    uint8_t *base = malloc(off + nb);
#else
    uint8_t *base = malloc(off + nb + 64);
    for (size_t i = 0; i < 64; i++) base[off + nb + i] = (uint8_t)(garbage + i * 29);
#endif
    if (nb) memcpy(base + off, src, nb);
    for (int i = 0; i < 8; i++) {
        if (!g_placed_ptr[i]) {
            g_placed_ptr[i] = base + off;
            g_placed_base[i] = base;
            return base + off;
        }
    }
    fprintf(stderr, "place_encoded: table full\n");
    exit(2);
}
static void placed_free(uint8_t *p) {
    for (int i = 0; i < 8; i++) {
        if (g_placed_ptr[i] == p) {
            free(g_placed_base[i]);
            g_placed_ptr[i] = NULL;
            return;
        }
    }
    free(p);
}

/* =================================================================== C02 */
static void c02_blocks32(const codec_t *c, const input_t *in) {
    /* block-level API on the first 128 values */
    char key[200];
    uint32_t v[128], o[128];
    for (int i = 0; i < 128; i++) v[i] = (uint32_t)in->a[i];
    uint8_t *buf = malloc(1 + 128 * 4 + 64);
    bool delta = c->domain == DOM_SORTED;
    uint32_t prev = delta ? (uint32_t)(v[0] / 2) : 0;
    g_ctx = delta ? "varintBP128DeltaEncodeBlock32" : "varintBP128EncodeBlock32";
    size_t nb = delta ? varintBP128DeltaEncodeBlock32(buf, v, prev) : varintBP128EncodeBlock32(buf, v);
    if (nb == 0 || nb > 1 + 128 * 4) {
        viol(KEY(key, c, "block32-size-out-of-range"), "returned %zu", nb);
        free(buf);
        return;
    }
    uint8_t *enc = place_encoded(buf, nb, 7);
    g_ctx = delta ? "varintBP128DeltaDecodeBlock32" : "varintBP128DecodeBlock32";
    size_t used = delta ? varintBP128DeltaDecodeBlock32(enc, o, prev) : varintBP128DecodeBlock32(enc, o);
    if (used != nb) viol(KEY(key, c, "block32-consumed-differs-from-written"), "written %zu consumed %zu", nb, used);
    if (memcmp(v, o, sizeof v)) viol(KEY(key, c, "block32-value-mismatch"), "first values %u %u", v[0], o[0]);
    STAT_INC("c02_block32_cases");
    placed_free(enc);
    free(buf);
}

static void c02_check(const codec_t *c, input_t in, uint64_t g, rng_t *r);
static bool c02_huge_case(const codec_t *c, uint64_t g, rng_t *r);
static void c02_case(uint64_t idx, rng_t *r) {
    uint64_t g = idx * g_nshards + g_shard;
    /* the first non-adaptive codecs only */
    size_t ncod = 0;
    while (ncod < NCODECS && !codec_is_adaptive(&CODECS[ncod])) ncod++;
    const codec_t *c = &CODECS[g % ncod];
    if (idx < g_param[3] && c02_huge_case(c, g, r)) return;
    input_t in;
    make_input(c, idx, r, &in);
    c02_check(c, in, g, r);
}
/* arrays of more than 2^20 elements (the first p3 cases of every shard): any model, with a unique minimum and a
 * unique maximum dropped at random positions so that analysis passes which look at a subset of a large input are
 * observable */
static bool make_huge_input(const codec_t *c, uint64_t g, rng_t *r, input_t *out, bool giant_sizes) {
    static const size_t lens[] = {1048577, 1200001, 1500000, 2097153, 3000000, 1048576 + 4097, 2500000};
    /* "giant" arrays instead — past 2^24 elements and past 2^32/100, 2^32/95, 2^32/90 elements */
    static const size_t giant[] = {16777217, 16777216 + 70000, 20000000, 33554433, 42949673, 45210183, 45300000, 47721859, 50000000};
    if (c->maxlen && c->maxlen < (1u << 20)) return false;
    if (c->domain == DOM_GROUP || c->domain == DOM_STRICT16) return false;
    size_t n = giant_sizes ? giant[rng_below(r, sizeof giant / sizeof giant[0])] : lens[rng_below(r, sizeof lens / sizeof lens[0])];
    n += rng_below(r, 5);
    int model = (int)rng_below(r, AM_NMODELS);
    uint64_t *tmp = malloc(n * 8);
    gen_array_model(r, model, tmp, n, (unsigned)c->elembits);
    n = shape_domain(c, r, tmp, n, model);
    uint64_t mn = tmp[0], mx = tmp[0];
    for (size_t i = 1; i < n; i++) { if (tmp[i] < mn) mn = tmp[i]; if (tmp[i] > mx) mx = tmp[i]; }
    if (c->domain != DOM_SORTED && c->domain != DOM_SIGNED_DELTA) {
        uint64_t top = c->elembits == 32 ? 0xffffffffULL : UINT64_MAX;
        if (mn < 2) { /* make room below the minimum */
            for (size_t i = 0; i < n; i++) if (tmp[i] < 2) tmp[i] += 2;
            mn = 2;
            if (mx < 3) mx = 3;
        }
        size_t p1 = rng_below(r, n);
        size_t p2 = rng_below(r, n);
        uint64_t lowv = mn >= 2 ? mn - 1 - rng_below(r, mn < 1000 ? mn - 1 : 1000) : mn;
        uint64_t highv = mx <= top - 2 ? mx + 1 + rng_below(r, top - mx < 1000 ? top - mx - 1 : 1000) : mx;
        tmp[p1] = lowv;
        if (p2 != p1) tmp[p2] = highv;
        n = shape_domain(c, r, tmp, n, model);
    }
    input_alloc(out, n, g);
    memcpy(out->a, tmp, n * 8);
    free(tmp);
    out->model = model;
    return true;
}
static bool c02_huge_case(const codec_t *c, uint64_t g, rng_t *r) {
    input_t in;
    if (!make_huge_input(c, g, r, &in, g_param[4] != 0)) return false;
    STAT_INC(g_param[4] ? "c02_giant_arrays" : "c02_huge_arrays");
    c02_check(c, in, g, r);
    return true;
}
static void c02_check(const codec_t *c, input_t in, uint64_t g, rng_t *r) {
    char key[200];
    size_t n = in.n;
    g_codec_cases[c - CODECS]++;
    if (distinct_add(&g_distinct, arr_sig(c, in.a, n)) && nontrivial(in.a, n)) STAT_INC("distinct_nontrivial");
    g_enc_off = (g & 1) ? (size_t)((g >> 1) & 15) : 0; /* encoded bytes start at every misalignment */
    if (g_enc_off) STAT_INC("c02_misaligned_encoded_buffers");
    snprintf(g_sub, sizeof g_sub, "codec=%s n=%zu model=%s srcalign=%zu", c->name, n, AM_NAMES[in.model], g_enc_off);

    uint8_t *dst = malloc(scratch_size(n));
    encinfo_t info;
    memset(&info, 0, sizeof info);
    g_ctx = c->encname;
    size_t ret = c->encode(dst, in.a, n, &info);
    info.ret = ret;
    if (ret == 0 || ret > scratch_size(n)) {
        viol(KEY(key, c, "encoder-refused-valid-input"), "n=%zu model=%s returned %zu input=%s", n, AM_NAMES[in.model], ret, arr_preview(in.a, n));
        goto out;
    }
    digest_u64(&g_dig, g);
    digest_bytes(&g_dig, dst, ret);
    uint8_t *enc = place_encoded(dst, ret, 0x11);
    size_t oshift = (g >> 6) & 1; /* output 16-byte aligned or 8 mod 16; its end stays exact */
    uint64_t *outbase = malloc((n + oshift) * 8);
    uint64_t *out = outbase + oshift;
    memset(out, 0xCD, n * 8);
    g_ctx = c->decname;
    size_t rn = c->decode(enc, ret, &info, out, n);
    if (rn != n) {
        viol(KEY(key, c, "decoded-count-mismatch"), "n=%zu model=%s decoder reported %zu (bytes written %zu) input=%s", n, AM_NAMES[in.model], rn, ret, arr_preview(in.a, n));
    } else if (memcmp(out, in.a, n * 8)) {
        size_t bad = 0;
        while (bad < n && out[bad] == in.a[bad]) bad++;
        viol(KEY(key, c, "value-mismatch"), "n=%zu model=%s index %zu want %" PRIu64 " got %" PRIu64 " input=%s", n, AM_NAMES[in.model], bad, in.a[bad], out[bad], arr_preview(in.a, n));
    }
#if !VERIF_ASAN
    { /* the result must not depend on what follows the written bytes */
        uint8_t *enc2 = place_encoded(dst, ret, 0xE7);
        uint64_t *out2 = malloc(n * 8);
        memset(out2, 0xCD, n * 8);
        size_t rn2 = c->decode(enc2, ret, &info, out2, n);
        if (rn2 != rn || memcmp(out, out2, n * 8)) {
            viol(KEY(key, c, "decoder-depends-on-bytes-beyond-encoded-size"), "n=%zu model=%s", n, AM_NAMES[in.model]);
        }
        placed_free(enc2);
        free(out2);
    }
#endif
    /* random access readers agree with the full decoder */
    if (c->getat && rn == n) {
        size_t probes = n <= 64 ? n : 24;
        for (size_t k = 0; k < probes; k++) {
            size_t i = n <= 64 ? k : (k == 0 ? 0 : k == 1 ? n - 1 : rng_below(r, n));
            uint64_t v = ~in.a[i];
            g_ctx = "random-access";
            snprintf(g_sub, sizeof g_sub, "codec=%s n=%zu getat=%zu", c->name, n, i);
            if (!c->getat(enc, ret, &info, n, i, &v) || v != out[i]) {
                viol(KEY(key, c, "random-access-differs-from-full-decode"), "n=%zu index %zu full=%" PRIu64 " random=%" PRIu64 " input=%s", n, i, out[i], v, arr_preview(in.a, n));
                break;
            }
            STAT_INC("c02_random_access_probes");
        }
    }
    /* FOR: decode-modify-re-encode cycle with the meta obtained from the header reader (here without a modification:
     * the bytes must come out identical) */
    if (!strncmp(c->name, "for", 3) && rn == n && n < (1u << 20)) {
        varintFORMeta rm;
        memset(&rm, 0, sizeof rm);
        g_ctx = "varintFORReadMetadata";
        varintFORReadMetadata(enc, &rm);
        uint8_t *again = malloc(scratch_size(n));
        g_ctx = !strncmp(c->name, "for.batch", 9) ? "varintFORBatchEncode(meta from ReadMetadata)" : "varintFOREncode(meta from ReadMetadata)";
        size_t r2 = !strncmp(c->name, "for.batch", 9) ? varintFORBatchEncode(again, in.a, n, &rm) : varintFOREncode(again, in.a, n, &rm);
        if (r2 != ret || memcmp(again, dst, ret)) {
            viol(KEY(key, c, "re-encode-with-header-read-meta-differs"), "n=%zu first encoding %zu bytes, re-encoding with the meta from varintFORReadMetadata %zu bytes input=%s", n, ret, r2, arr_preview(in.a, n));
        }
        free(again);
        STAT_INC("c02_for_reencodes_with_header_read_meta");
    }
    /* FOR block reader */
    if (!strcmp(c->name, "for") || !strcmp(c->name, "for.batch")) {
        for (int k = 0; k < 4; k++) {
            size_t start = k == 0 ? n - 1 : k == 1 ? 0 : rng_below(r, n);
            size_t bs = k == 0 ? 1 + rng_below(r, 40) : k == 3 ? n + 5 : 1 + rng_below(r, n);
            size_t expect = start + bs > n ? n - start : bs;
            uint64_t *blk = malloc(expect * 8 ? expect * 8 : 1);
            g_ctx = "varintFORDecodeBlock";
            snprintf(g_sub, sizeof g_sub, "n=%zu start=%zu size=%zu", n, start, bs);
            size_t got = varintFORDecodeBlock(enc, blk, start, bs);
            if (got != expect || memcmp(blk, in.a + start, expect * 8)) {
                viol(KEY(key, c, "block-reader-differs-from-full-decode"), "n=%zu start=%zu size=%zu returned %zu", n, start, bs, got);
            }
            free(blk);
            STAT_INC("c02_block_reads");
        }
        size_t z = varintFORDecodeBlock(enc, out, n, 4);
        if (z != 0) viol(KEY(key, c, "block-reader-past-end"), "start=n returned %zu", z);
    }
    if ((!strcmp(c->name, "bp128.32") || !strcmp(c->name, "bp128.delta32")) && n >= 128) {
        c02_blocks32(c, &in);
    }
    if (!strcmp(c->name, "delta.signed")) { /* single-delta writer/reader */
        for (size_t k = 0; k < n && k < 64; k++) {
            int64_t dv = (int64_t)in.a[k], back = ~dv;
            uint64_t zz = dv >= 0 ? 2 * (uint64_t)dv : 2 * (uint64_t)(-(dv + 1)) + 1;
            size_t need = 1 + (size_t)ref_bytes_needed(zz);
            uint8_t *b = malloc(need);
            g_ctx = "varintDeltaPut";
            size_t w = varintDeltaPut(b, dv);
            g_ctx = "varintDeltaGet";
            size_t w2 = w == need ? varintDeltaGet(b, &back) : 0;
            if (w != need || w2 != need || back != dv) {
                viol(KEY(key, c, "single-delta-roundtrip"), "delta %" PRId64 " wrote %zu read %zu got %" PRId64, dv, w, w2, back);
                free(b);
                break;
            }
            free(b);
            STAT_INC("c02_single_delta_roundtrips");
        }
    }
    if (want_sample() && nontrivial(in.a, n)) {
        sample("{\"codec\":\"%s\",\"model\":\"%s\",\"n\":%zu,\"encoded_bytes\":%zu,\"input\":\"%s\"}", c->name, AM_NAMES[in.model], n, ret, arr_preview(in.a, n));
    }
    free(outbase);
    placed_free(enc);
out:
    g_sub[0] = 0;
    free(dst);
    free(in.base);
}

/* =================================================================== C03 */
/* worst-case inputs per bound */
static int g_worst_shape = -1; /* force a shape of c03_worst */
static void c03_worst(const codec_t *c, rng_t *r, uint64_t *a, size_t n) {
    unsigned bits = (unsigned)c->elembits;
    uint64_t top = bits == 64 ? UINT64_MAX : 0xffffffffULL;
    uint64_t shape = rng_below(r, 7);
    if (g_worst_shape >= 0) shape = (uint64_t)g_worst_shape;
    if (shape == 6) { /* bimodal with the wide values in the majority: a small cluster below any low percentile */
        uint64_t pct = 52 + rng_below(r, 30);
        for (size_t i = 0; i < n; i++) a[i] = rng_below(r, 100) < pct ? (top - rng_below(r, top >> 4)) : rng_below(r, 1 + (rng_chance(r, 1, 2) ? 200 : 60000));
        return;
    }
    switch (shape) {
    case 0: /* all values maximal width, unique */
        for (size_t i = 0; i < n; i++) a[i] = (rng_next(r) | (1ULL << (bits - 1))) & top;
        break;
    case 1: /* alternating extremes: maximal deltas */
        for (size_t i = 0; i < n; i++) a[i] = (i & 1) ? top - rng_below(r, 3) : rng_below(r, 3);
        break;
    case 2: /* huge first value, small rest / exceptions at the highest indices */
        for (size_t i = 0; i < n; i++) a[i] = rng_below(r, 200);
        a[0] = top;
        if (n > 3) { a[n - 1] = top - 1; a[n - 2] = top >> 1; }
        break;
    case 3: /* non-decreasing with 64-bit-wide deltas */
        for (size_t i = 0; i < n; i++) a[i] = i < n / 2 ? rng_below(r, 2) : top - (n - i);
        break;
    case 4: /* every value = top */
        for (size_t i = 0; i < n; i++) a[i] = top;
        break;
    default: /* all distinct, each run length 1, values needing 9 tagged bytes */
        for (size_t i = 0; i < n; i++) a[i] = (top - i * 3) & top;
        break;
    }
}
static void c03_check(const codec_t *c, input_t in, uint64_t g);
/* p3: the first cases of every shard are giant arrays (past 2^24 elements and past 2^32/100..2^32/90 elements) in the
 * worst-case shapes of the bounds */
static bool c03_giant_case(const codec_t *c, uint64_t g, rng_t *r) {
    static const size_t giant[] = {16777217, 16777216 + 70000, 20000000, 33554433, 42949673, 45210183, 45300000, 47721859, 50000000};
    if (c->maxlen && c->maxlen < (1u << 20)) return false;
    if (c->domain == DOM_GROUP || c->domain == DOM_STRICT16) return false;
    size_t n = giant[rng_below(r, sizeof giant / sizeof giant[0])] + rng_below(r, 5);
    bool pfor = strstr(c->name, "pfor") || strstr(c->name, "PFOR");
    if (pfor) { /* just past 2^32 / percentile elements, nearly every value 8 bytes wide */
        uint64_t pct = !strcmp(c->name, "pfor.90") ? 90 : !strcmp(c->name, "pfor.99") ? 99 : 95;
        n = (size_t)((1ull << 32) / pct) + 1 + rng_below(r, 200000);
    }
    input_t in;
    input_alloc(&in, n, g);
    if (pfor || rng_chance(r, 2, 3)) {
        if (pfor) g_worst_shape = rng_chance(r, 1, 2) ? 0 : 5;
        c03_worst(c, r, in.a, n);
        g_worst_shape = -1;
        in.model = AM_NMODELS;
    } else {
        in.model = (int)rng_below(r, AM_NMODELS);
        gen_array_model(r, in.model, in.a, n, (unsigned)c->elembits);
    }
    in.n = shape_domain(c, r, in.a, n, AM_FULL64);
    STAT_INC("c03_giant_arrays");
    c03_check(c, in, g);
    return true;
}
static void c03_case(uint64_t idx, rng_t *r) {
    uint64_t g = idx * g_nshards + g_shard;
    const codec_t *c = &CODECS[g % NCODECS];
    input_t in;
    if (idx < g_param[3] && c03_giant_case(c, g, r)) return;
    make_input(c, idx, r, &in);
    if (rng_chance(r, 1, 3)) {
        size_t n = in.n;
        if (rng_chance(r, 1, 2)) { /* tiny arrays stress the fixed overheads of a bound */
            static const size_t tiny[] = {1, 1, 2, 3, 127, 128, 129};
            n = tiny[rng_below(r, 7)];
            if (n > in.n) n = in.n;
        }
        c03_worst(c, r, in.a, n);
        in.n = shape_domain(c, r, in.a, n, AM_FULL64);
        in.model = AM_NMODELS; /* worst */
    } else if (codec_is_adaptive(c) && c->param == -1 && rng_chance(r, 1, 2) && (g_param[1])) {
        /* sampler-aliasing input: periodic, > 10000 elements */
        size_t n = 10001 + rng_below(r, 2000);
        free(in.base);
        input_alloc(&in, n, g);
        gen_array_model(r, AM_PERIODIC, in.a, n, 64);
        in.model = AM_PERIODIC;
    }
    if (!strncmp(c->name, "rle", 3) && rng_chance(r, 1, 10)) {
        /* runs laid out against 4 KiB page boundaries of the input: a run ending with the last element of a page,
         * followed by runs that fill whole pages (multiples of 512 elements), at every start offset within a page */
        size_t off = rng_below(r, 512);
        size_t first = (512 - off) + 512 * rng_below(r, 2);
        size_t lens[6];
        size_t nr = 2 + rng_below(r, 4), total = first;
        lens[0] = first;
        for (size_t k = 1; k < nr; k++) {
            lens[k] = rng_chance(r, 2, 3) ? 512 * (1 + rng_below(r, 3)) : 1 + rng_below(r, 700);
            total += lens[k];
        }
        void *pg = NULL;
        if (posix_memalign(&pg, 4096, (off + total) * 8) == 0) {
            free(in.base);
            in.base = pg;
            in.a = in.base + off;
            in.n = total;
            size_t at = 0;
            uint64_t v = gen_value(r);
            for (size_t k = 0; k < nr; k++) {
                for (size_t i = 0; i < lens[k]; i++) in.a[at++] = v;
                v += 1 + rng_below(r, 1000);
            }
            in.model = AM_NMODELS;
            STAT_INC("c03_rle_runs_laid_out_on_page_boundaries");
        }
    }
    if ((!strcmp(c->name, "adaptive.DICT") || !strncmp(c->name, "dict", 4)) && g_param[1] && (idx % g_param[1]) == 1) {
        /* the adaptive bound is only approached by a large all-unique dictionary (3-byte indices) */
        size_t n = 66000 + rng_below(r, 3000);
        free(in.base);
        input_alloc(&in, n, g);
        for (size_t i = 0; i < n; i++) in.a[i] = (1ULL << 63) | (rng_next(r) << 20) | i;
        in.model = AM_NMODELS;
    }
    c03_check(c, in, g);
}
static void c03_check(const codec_t *c, input_t in, uint64_t g) {
    char key[200];
    size_t n = in.n;
    g_codec_cases[c - CODECS]++;
    if (distinct_add(&g_distinct, arr_sig(c, in.a, n)) && nontrivial(in.a, n)) STAT_INC("distinct_nontrivial");
    g_ctx = c->boundname;
    size_t N = c->bound(in.a, n);
    if (N == 0 || N > (n > (1u << 22) ? (1ull << 36) : (1ull << 31))) {
        viol(KEY(key, c, "sizing-function-returned-nonsense"), "n=%zu N=%zu", n, N);
        free(in.base);
        return;
    }
    gbuf_t gb;
    g_gbuf_off = (g & 2) ? (size_t)((g >> 2) & 15) : 0; /* destination starts at every misalignment */
    gbuf_alloc(&gb, N, 4096, (uint8_t)(g * 7 + 1));
    g_gbuf_off = 0;
    encinfo_t info;
    memset(&info, 0, sizeof info);
    g_ctx = c->encname;
    snprintf(g_sub, sizeof g_sub, "codec=%s n=%zu advertised=%zu (%s) model=%s first=%" PRIu64, c->name, n, N, c->boundname, in.model < AM_NMODELS ? AM_NAMES[in.model] : "worst", in.a[0]);
    size_t ret = c->encode(gb.p, in.a, n, &info);
    g_sub[0] = 0;
    long dmg = gbuf_check(&gb);
    if (dmg != -1) {
        viol(KEY(key, c, "write-past-advertised-size"), "n=%zu advertised %zu (%s) first damaged offset %ld returned %zu input=%s", n, N, c->boundname, dmg, ret, arr_preview(in.a, n));
    }
    if (ret > N) {
        viol(KEY(key, c, "returned-length-exceeds-advertised-size"), "n=%zu advertised %zu (%s) returned %zu input=%s", n, N, c->boundname, ret, arr_preview(in.a, n));
    } else if (c->bound_exact && ret != N) {
        viol(KEY(key, c, "exact-predictor-differs-from-written"), "n=%zu predicted %zu (%s) written %zu input=%s", n, N, c->boundname, ret, arr_preview(in.a, n));
    }
    if (ret && ret <= N) {
        uint64_t pm = ret * 1000 / N;
        if (pm > g_ratio_permille[c - CODECS]) g_ratio_permille[c - CODECS] = pm;
    }
    if (want_sample()) sample("{\"codec\":\"%s\",\"n\":%zu,\"advertised\":%zu,\"written\":%zu,\"sizing\":\"%s\"}", c->name, n, N, ret, c->boundname);
    STAT_INC("c03_encodes");
    gbuf_free(&gb);
    if (!strcmp(c->name, "dict.withdict") && n >= 2 && n < (1u << 20)) {
        /* the refusal path: the shared dictionary lacks one value of the array (at the first, a middle or the last
         * position); the destination still has exactly the advertised size */
        varintDict *dc = varintDictCreate();
        varintDictBuild(dc, in.a, n);
        size_t N2 = varintDictEncodedSizeWithDict(dc, n);
        uint64_t missing = in.a[0] + 1;
        for (int tries = 0; tries < 64 && varintDictFind(dc, missing) >= 0; tries++) missing = missing * 6364136223846793005ULL + 1442695040888963407ULL;
        if (varintDictFind(dc, missing) < 0) {
            size_t pos = (g % 3) == 0 ? 0 : (g % 3) == 1 ? n - 1 : 1 + (size_t)(g / 3) % (n - 1);
            uint64_t *b = malloc(n * 8);
            memcpy(b, in.a, n * 8);
            b[pos] = missing;
            gbuf_t gb2;
            gbuf_alloc(&gb2, N2, 4096, (uint8_t)(g * 11 + 3));
            g_ctx = "varintDictEncodeWithDict";
            snprintf(g_sub, sizeof g_sub, "dict.withdict refusal n=%zu advertised=%zu unknown value at %zu", n, N2, pos);
            size_t r2 = varintDictEncodeWithDict(gb2.p, dc, b, n);
            g_sub[0] = 0;
            long dmg2 = gbuf_check(&gb2);
            if (dmg2 != -1) viol(KEY(key, c, "write-past-advertised-size"), "refused encode (value at index %zu not in the dictionary) n=%zu advertised %zu first damaged offset %ld returned %zu", pos, n, N2, dmg2, r2);
            if (r2 > N2) viol(KEY(key, c, "returned-length-exceeds-advertised-size"), "refused encode n=%zu advertised %zu returned %zu", n, N2, r2);
            gbuf_free(&gb2);
            free(b);
            STAT_INC("c03_dictionary_refusals");
        }
        varintDictFree(dc);
    }
    free(in.base);
}

/* =================================================================== C13 */
static void c13_case(uint64_t idx, rng_t *r) {
    uint64_t g = idx * g_nshards + g_shard;
    /* codecs with a capacity-taking decoder */
    static int capidx[64];
    static int ncap = 0;
    if (!ncap) for (size_t i = 0; i < NCODECS; i++) if (CODECS[i].decode_cap && CODECS[i].param != -1) capidx[ncap++] = (int)i;
    const codec_t *c = &CODECS[capidx[g % (uint64_t)ncap]];
    g_enc_off = (g & 1) ? (size_t)((g >> 1) & 15) : 0;
    char key[200];
    input_t in;
    if (!g_param[0]) g_param[0] = 1000;
    bool hugein = idx < g_param[3] && make_huge_input(c, g, r, &in, false);
    if (hugein) STAT_INC("c13_huge_arrays");
    else make_input(c, idx, r, &in);
    if (!hugein && rng_chance(r, 1, 4) && c->domain != DOM_GROUP) { /* block-edge lengths */
        static const size_t edges[] = {127, 128, 129, 130, 255, 256, 257, 258};
        size_t n = edges[rng_below(r, 8)];
        free(in.base);
        input_alloc(&in, n, g);
        gen_array_model(r, (int)rng_below(r, AM_NMODELS), in.a, n, (unsigned)c->elembits);
        in.n = shape_domain(c, r, in.a, n, AM_MIXTURE);
    }
    size_t n = in.n;
    g_codec_cases[c - CODECS]++;
    if (n > 4096) STAT_INC("c13_long_arrays");
    uint8_t *dst = malloc(scratch_size(n));
    encinfo_t info;
    memset(&info, 0, sizeof info);
    g_ctx = c->encname;
    size_t ret = c->encode(dst, in.a, n, &info);
    if (ret == 0) {
        free(dst);
        free(in.base);
        return; /* C02's subject */
    }
    uint8_t *enc = place_encoded(dst, ret, 0x3C);
    /* adaptive decoders take an optional *output* meta: what it holds beforehand (nothing, garbage, or the meta of an
     * earlier, larger stream of the same encoding) must not matter */
    varintAdaptiveMeta stale;
    bool have_stale = false;
    if (codec_is_adaptive(c)) {
        size_t n2 = n * 2 + 300 + rng_below(r, 400);
        uint64_t *b = malloc(n2 * 8);
        gen_array_model(r, in.model, b, n2, 64);
        n2 = shape_domain(c, r, b, n2, in.model);
        uint8_t *d2 = malloc(scratch_size(n2));
        memset(&stale, 0, sizeof stale);
        g_ctx = c->encname;
        size_t r2 = varintAdaptiveEncodeWith(d2, b, n2, (varintAdaptiveEncodingType)c->param, &stale);
        if (r2 && rng_chance(r, 1, 2)) { /* or filled by a decode of that stream */
            uint64_t *o2 = malloc(n2 * 8);
            memset(&stale, 0, sizeof stale);
            g_ctx = c->decname;
            varintAdaptiveDecode(d2, o2, n2, &stale);
            free(o2);
        }
        have_stale = r2 != 0 && n2 > n;
        free(d2);
        free(b);
    }
    size_t caps[12];
    int nc = 0;
    caps[nc++] = 0;
    caps[nc++] = 1;
    caps[nc++] = 2;
    caps[nc++] = n / 2;
    caps[nc++] = n - 1;
    caps[nc++] = n;
    caps[nc++] = rng_below(r, n + 1);
    if (n > 128) { caps[nc++] = n - 128; caps[nc++] = 127; caps[nc++] = 128; caps[nc++] = 129; }
    size_t esz = c->elembits == 32 ? 4 : 8;
    for (int k = 0; k < nc; k++) {
        size_t cap = caps[k];
        if (cap > n) continue;
        gbuf_t gb;
        /* output arrays that are element-aligned but not 16-byte aligned (8 mod 16, or 4/8/12 for 32-bit elements) */
        g_gbuf_off = ((g >> 3) & 1) ? esz * (1 + ((g >> 4) % (16 / esz - 1))) : 0;
        if (g_gbuf_off) STAT_INC("c13_outputs_not_16_byte_aligned");
        gbuf_alloc(&gb, cap * esz, 4096, (uint8_t)(cap * 13 + 5));
        g_gbuf_off = 0;
        memset(gb.p, 0xCD, cap * esz);
        g_ctx = c->decname;
        snprintf(g_sub, sizeof g_sub, "codec=%s n=%zu capacity=%zu", c->name, n, cap);
        size_t rr;
        if (codec_is_adaptive(c) && (k % 3) != 0) {
            varintAdaptiveMeta m;
            if ((k % 3) == 1 && have_stale) {
                m = stale;
                STAT_INC("c13_decodes_with_stale_meta");
            } else {
                memset(&m, 0xEE, sizeof m);
            }
            snprintf(g_sub, sizeof g_sub, "codec=%s n=%zu capacity=%zu meta=%s", c->name, n, cap, (k % 3) == 1 && have_stale ? "from-an-earlier-larger-stream" : "garbage");
            rr = varintAdaptiveDecode(enc, (uint64_t *)gb.p, cap, &m);
        } else {
            rr = c->decode_cap(enc, ret, &info, gb.p, cap, n);
        }
        g_sub[0] = 0;
        long dmg = gbuf_check(&gb);
        if (dmg != -1) {
            viol(KEY(key, c, "write-past-capacity"), "n=%zu capacity=%zu first damaged byte offset %ld returned %zu", n, cap, dmg, rr);
        }
        if (rr > cap) {
            viol(KEY(key, c, "returned-count-exceeds-capacity"), "n=%zu capacity=%zu returned %zu", n, cap, rr);
        } else if (rr) {
            bool ok = true;
            for (size_t i = 0; i < rr && ok; i++) {
                uint64_t v = esz == 4 ? ((uint32_t *)gb.p)[i] : ((uint64_t *)gb.p)[i];
                ok = v == in.a[i];
            }
            if (!ok) viol(KEY(key, c, "prefix-mismatch"), "n=%zu capacity=%zu returned %zu input=%s", n, cap, rr, arr_preview(in.a, n));
            if (cap < n) stat_add("c13_prefix", 1);
        } else if (cap < n) {
            stat_add("c13_refused", 1);
        }
        if (cap == n && rr != n) {
            viol(KEY(key, c, "full-capacity-decode-failed"), "n=%zu returned %zu", n, rr);
        }
        if (cap == 0) STAT_INC("c13_capacity0");
        if (cap < n) STAT_INC("distinct_nontrivial");
        STAT_INC("c13_decodes");
        if (want_sample() && cap && cap < n) sample("{\"codec\":\"%s\",\"n\":%zu,\"capacity\":%zu,\"returned\":%zu}", c->name, n, cap, rr);
        gbuf_free(&gb);
    }
    placed_free(enc);
    free(dst);
    free(in.base);
}

#include "drv_array_meta.h"

/* runs whose length needs 4..5 tagged bytes (>= 2^24 identical values): untouched calloc pages keep this cheap */
static void giant_run_case(void) {
    static const size_t lens[] = {16777215, 16777216, 16777217, 16777216 + 70000};
    char key[200];
    for (int k = 0; k < 4; k++) {
        size_t n = lens[k];
        uint64_t *a = calloc(n, 8);
        if (!a) {
            STAT_INC("giant_run_skipped_no_memory");
            return;
        }
        a[n - 1] = k == 3 ? 7 : 0; /* a second short run in the last variant */
        const codec_t *c = NULL;
        for (size_t i = 0; i < NCODECS; i++) if (!strcmp(CODECS[i].name, "rle")) c = &CODECS[i];
        g_ctx = "varintRLESize";
        size_t N = varintRLESize(a, n);
        varintRLEMeta am;
        memset(&am, 0, sizeof am);
        varintRLEAnalyze(a, n, &am);
        gbuf_t gb;
        gbuf_alloc(&gb, N, 64, 0x21);
        varintRLEMeta m;
        memset(&m, 0, sizeof m);
        g_ctx = "varintRLEEncode";
        snprintf(g_sub, sizeof g_sub, "giant run n=%zu advertised=%zu", n, N);
        size_t ret = varintRLEEncode(gb.p, a, n, &m);
        if (gbuf_check(&gb) != -1 || ret > N) viol(KEY(key, c, "write-past-advertised-size"), "run of %zu identical values: varintRLESize %zu, encoder wrote %zu", n, N, ret);
        else if (ret != N || am.encodedSize != ret || m.encodedSize != ret) viol(KEY(key, c, !strcmp(PROP, "C03") ? "exact-predictor-differs-from-written" : "RLE.Analyze"), "run of %zu identical values: Size %zu Analyze %zu meta %zu written %zu", n, N, am.encodedSize, m.encodedSize, ret);
        if (m.runCount != (k == 3 ? 2u : 1u) || m.count != n) viol(KEY(key, c, "RLE.meta.runCount"), "n=%zu runs %zu", n, m.runCount);
        g_sub[0] = 0;
        gbuf_free(&gb);
        free(a);
        STAT_INC("giant_run_cases");
    }
}

int main(int argc, char **argv) {
    parse_args(argc, argv);
    install_handlers();
    gen_init();
    distinct_init(&g_distinct, 20);
    distinct_init(&g_cells, 12);
    digest_init(&g_dig);
    if (!strcmp(g_mode, "c02")) {
        PROP = "C02";
        CASE_LOOP(c02_case);
    } else if (!strcmp(g_mode, "c03")) {
        PROP = "C03";
        if (g_param[2] && g_shard == 0 && g_from == 0 && g_only < 0) giant_run_case();
        CASE_LOOP(c03_case);
    } else if (!strcmp(g_mode, "c13")) {
        PROP = "C13";
        CASE_LOOP(c13_case);
    } else if (!strcmp(g_mode, "c16")) {
        PROP = "C16";
        if (g_param[2] && g_shard == 0 && g_from == 0 && g_only < 0) giant_run_case();
        CASE_LOOP(c16_case);
    } else if (!strcmp(g_mode, "c06")) {
        PROP = "C06";
        CASE_LOOP(c06_case);
    } else {
        fprintf(stderr, "bad mode\n");
        return 2;
    }
    for (size_t i = 0; i < NCODECS; i++) {
        if (g_codec_cases[i]) printf("STAT codec.%s %" PRIu64 "\n", CODECS[i].name, g_codec_cases[i]);
        if (g_ratio_permille[i]) printf("MAX ratio_permille.%s %" PRIu64 "\n", CODECS[i].name, g_ratio_permille[i]);
    }
    digest_print("array", &g_dig);
    fflush(stdout);
    return 0;
}
