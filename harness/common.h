/* common.h — shared by every driver: PRNG, case bookkeeping, reporting
 * protocol, guard buffers, digests, distinct-case counter, crash handlers.
 *
 * Output protocol (stdout, one record per line, parsed by vlib/core.py):
 *   VIOL key=<key> case=<idx> detail=<free text to end of line>
 *   CRASH case=<idx> kind=<asan|sig11|sig6|...|hang> ctx=<entry point> sub=<text>
 *   STAT <name> <uint64>             (summed over shards)
 *   MAX <name> <uint64>              (max over shards)
 *   DIGEST <name> <hex16>            (compared across configurations)
 *   SAMPLE <json-ish text>
 *   DONE cases=<n>
 */
#ifndef VERIF_COMMON_H
#define VERIF_COMMON_H

#ifndef _GNU_SOURCE
#define _GNU_SOURCE
#endif
#include <inttypes.h>
#include <signal.h>
#include <stdarg.h>
#include <stdbool.h>
#include <stdint.h>
#include <stdio.h>
#include <stdlib.h>
#include <string.h>
#include <unistd.h>

#if defined(__SANITIZE_ADDRESS__)
#define VERIF_ASAN 1
#elif defined(__has_feature)
#if __has_feature(address_sanitizer)
#define VERIF_ASAN 1
#endif
#endif
#ifndef VERIF_ASAN
#define VERIF_ASAN 0
#endif

#if defined(__has_feature)
#if __has_feature(memory_sanitizer)
#define VERIF_MSAN 1
#endif
#endif
#ifndef VERIF_MSAN
#define VERIF_MSAN 0
#endif

#define NOINLINE __attribute__((noinline))

/* ------------------------------------------------------------------ PRNG */
typedef struct {
    uint64_t s[4];
} rng_t;

static inline uint64_t splitmix64(uint64_t *x) {
    uint64_t z = (*x += 0x9E3779B97F4A7C15ULL);
    z = (z ^ (z >> 30)) * 0xBF58476D1CE4E5B9ULL;
    z = (z ^ (z >> 27)) * 0x94D049BB133111EBULL;
    return z ^ (z >> 31);
}
static inline uint64_t mix3(uint64_t a, uint64_t b, uint64_t c) {
    uint64_t x = a * 0x9E3779B97F4A7C15ULL ^ (b + 0x632BE59BD9B4E019ULL);
    (void)splitmix64(&x);
    x ^= c * 0xD6E8FEB86659FD93ULL;
    return splitmix64(&x);
}
static inline void rng_seed(rng_t *r, uint64_t seed) {
    uint64_t x = seed;
    for (int i = 0; i < 4; i++) {
        r->s[i] = splitmix64(&x);
    }
}
static inline uint64_t rotl64(uint64_t x, int k) {
    return (x << k) | (x >> (64 - k));
}
static inline uint64_t rng_next(rng_t *r) {
    uint64_t *s = r->s;
    const uint64_t result = rotl64(s[1] * 5, 7) * 9;
    const uint64_t t = s[1] << 17;
    s[2] ^= s[0];
    s[3] ^= s[1];
    s[1] ^= s[2];
    s[0] ^= s[3];
    s[2] ^= t;
    s[3] = rotl64(s[3], 45);
    return result;
}
/* uniform in [0,n) (n>0); slight modulo bias is irrelevant here */
static inline uint64_t rng_below(rng_t *r, uint64_t n) {
    return rng_next(r) % n;
}
static inline uint64_t rng_range(rng_t *r, uint64_t lo, uint64_t hi) {
    return lo + rng_below(r, hi - lo + 1);
}
static inline bool rng_chance(rng_t *r, unsigned num, unsigned den) {
    return rng_below(r, den) < num;
}
static inline void rng_fill(rng_t *r, void *p, size_t n) {
    uint8_t *b = p;
    while (n >= 8) {
        uint64_t v = rng_next(r);
        memcpy(b, &v, 8);
        b += 8;
        n -= 8;
    }
    if (n) {
        uint64_t v = rng_next(r);
        memcpy(b, &v, n);
    }
}

/* ------------------------------------------------------- run parameters */
static uint64_t g_seed = 1;
static uint64_t g_shard = 0, g_nshards = 1;
static uint64_t g_count = 1000;
static uint64_t g_from = 0;
static int64_t g_only = -1;
static const char *g_mode = "";
static int g_verbose = 0;
/* harness allocations: running out of memory for the harness's own buffers is not a verdict on the library */
static inline void *h_alloc_check(void *p, size_t n) {
    if (!p && n) {
        fprintf(stderr, "harness: out of memory (%zu bytes)\n", n);
        printf("STAT harness_out_of_memory 1\n");
        fflush(stdout);
        _exit(5);
    }
    return p;
}
static uint64_t g_param[8]; /* --p0 .. --p7 free parameters */
static const char *g_sparam = "";

static volatile uint64_t g_case = 0;          /* current case index */
static const char *volatile g_ctx = "startup"; /* current entry point */
static char g_sub[256];                        /* free-form sub context */

static uint64_t g_nviol = 0;

static inline uint64_t case_seed(uint64_t idx) {
    return mix3(g_seed, g_shard * 0x100000001ULL + 0x5bd1e995, idx);
}

static void parse_args(int argc, char **argv) {
    for (int i = 1; i < argc; i++) {
        const char *a = argv[i];
        const char *v = (i + 1 < argc) ? argv[i + 1] : "";
        if (!strcmp(a, "--seed")) {
            g_seed = strtoull(v, NULL, 0), i++;
        } else if (!strcmp(a, "--shard")) {
            g_shard = strtoull(v, NULL, 0), i++;
        } else if (!strcmp(a, "--nshards")) {
            g_nshards = strtoull(v, NULL, 0), i++;
        } else if (!strcmp(a, "--count")) {
            g_count = strtoull(v, NULL, 0), i++;
        } else if (!strcmp(a, "--from")) {
            g_from = strtoull(v, NULL, 0), i++;
        } else if (!strcmp(a, "--only")) {
            g_only = strtoll(v, NULL, 0), i++;
        } else if (!strcmp(a, "--mode")) {
            g_mode = v, i++;
        } else if (!strcmp(a, "--sparam")) {
            g_sparam = v, i++;
        } else if (!strcmp(a, "--verbose")) {
            g_verbose = 1;
        } else if (!strncmp(a, "--p", 3) && a[3] >= '0' && a[3] <= '7' &&
                   !a[4]) {
            g_param[a[3] - '0'] = strtoull(v, NULL, 0), i++;
        } else {
            fprintf(stderr, "unknown arg %s\n", a);
            exit(2);
        }
    }
}

/* --------------------------------------------------------------- report */
static void viol(const char *key, const char *fmt, ...)
    __attribute__((format(printf, 2, 3)));
static void viol(const char *key, const char *fmt, ...) {
    va_list ap;
    g_nviol++;
    if (g_nviol > 2000) {
        return; /* keep logs bounded; the count is still reported */
    }
    printf("VIOL key=%s case=%" PRIu64 " detail=", key, (uint64_t)g_case);
    va_start(ap, fmt);
    vprintf(fmt, ap);
    va_end(ap);
    printf("\n");
    fflush(stdout);
}

#define MAX_STATS 512
static struct {
    const char *name;
    uint64_t v;
    int ismax;
} g_stats[MAX_STATS];
static int g_nstats = 0;

static uint64_t *stat_slot(const char *name, int ismax) {
    for (int i = 0; i < g_nstats; i++) {
        if (g_stats[i].name == name || !strcmp(g_stats[i].name, name)) {
            return &g_stats[i].v;
        }
    }
    if (g_nstats >= MAX_STATS) {
        fprintf(stderr, "too many stats\n");
        exit(2);
    }
    { /* names live in a static pool: the harness must not allocate while an allocation monitor is armed */
        static char pool[MAX_STATS * 64];
        static size_t used = 0;
        size_t l = strlen(name) + 1;
        if (used + l > sizeof pool) {
            fprintf(stderr, "stat name pool full\n");
            exit(2);
        }
        memcpy(pool + used, name, l);
        g_stats[g_nstats].name = pool + used;
        used += l;
    }
    g_stats[g_nstats].ismax = ismax;
    g_stats[g_nstats].v = 0;
    return &g_stats[g_nstats++].v;
}
static inline void stat_add(const char *name, uint64_t v) {
    *stat_slot(name, 0) += v;
}
static inline void stat_max(const char *name, uint64_t v) {
    uint64_t *s = stat_slot(name, 1);
    if (v > *s) {
        *s = v;
    }
}
/* fast counters: a static slot resolved once per call site */
#define STAT_INC(name)                                                         \
    do {                                                                       \
        static uint64_t *_s;                                                   \
        if (!_s)                                                               \
            _s = stat_slot(name, 0);                                           \
        (*_s)++;                                                               \
    } while (0)
#define STAT_ADD(name, n)                                                      \
    do {                                                                       \
        static uint64_t *_s;                                                   \
        if (!_s)                                                               \
            _s = stat_slot(name, 0);                                           \
        (*_s) += (n);                                                          \
    } while (0)

static int g_nsamples = 0;
static int g_maxsamples = 6;
static void sample(const char *fmt, ...) __attribute__((format(printf, 1, 2)));
static void sample(const char *fmt, ...) {
    va_list ap;
    if (g_nsamples >= g_maxsamples) {
        return;
    }
    g_nsamples++;
    printf("SAMPLE ");
    va_start(ap, fmt);
    vprintf(fmt, ap);
    va_end(ap);
    printf("\n");
}
static inline bool want_sample(void) {
    return g_nsamples < g_maxsamples;
}

/* hex helper (static ring of buffers) */
static const char *hexs(const void *p, size_t n) {
    static char bufs[4][2 * 160 + 8];
    static int which;
    char *b = bufs[which++ & 3];
    const uint8_t *u = p;
    size_t m = n > 160 ? 160 : n;
    for (size_t i = 0; i < m; i++) {
        sprintf(b + 2 * i, "%02x", u[i]);
    }
    if (n > m) {
        strcpy(b + 2 * m, "...");
    } else {
        b[2 * m] = 0;
    }
    return b;
}

/* --------------------------------------------------------------- digest */
typedef struct {
    uint64_t a, b;
} digest_t;
static inline void digest_init(digest_t *d) {
    d->a = 0xcbf29ce484222325ULL;
    d->b = 0x84222325cbf29ce4ULL;
}
static inline void digest_u64(digest_t *d, uint64_t v) {
    d->a = (d->a ^ v) * 0x100000001b3ULL;
    d->a ^= d->a >> 29;
    d->b = rotl64(d->b, 11) + v * 0x9E3779B97F4A7C15ULL;
    d->b ^= d->b >> 31;
}
static inline void digest_bytes(digest_t *d, const void *p, size_t n) {
    const uint8_t *u = p;
    digest_u64(d, n);
    while (n >= 8) {
        uint64_t v;
        memcpy(&v, u, 8);
        digest_u64(d, v);
        u += 8;
        n -= 8;
    }
    if (n) {
        uint64_t v = 0;
        memcpy(&v, u, n);
        digest_u64(d, v);
    }
}
static inline void digest_print(const char *name, const digest_t *d) {
    printf("DIGEST %s %016" PRIx64 "%016" PRIx64 "\n", name, d->a, d->b);
}

/* ------------------------------------------------- distinct-case counter */
typedef struct {
    uint64_t *tab;
    uint64_t mask;
    uint64_t n;
    uint64_t cap;
} distinct_t;
static void distinct_init(distinct_t *d, unsigned log2cap) {
    d->mask = (1ULL << (log2cap + 1)) - 1;
    d->tab = calloc(d->mask + 1, sizeof(uint64_t));
    d->n = 0;
    d->cap = 1ULL << log2cap;
}
/* returns true if new; beyond cap everything counts as duplicate
 * (conservative). signature 0 is remapped. */
static inline bool distinct_add(distinct_t *d, uint64_t sig) {
    if (!d->tab || d->n >= d->cap) {
        return false;
    }
    uint64_t x = sig;
    uint64_t h = splitmix64(&x);
    if (h == 0) {
        h = 1;
    }
    uint64_t i = h & d->mask;
    while (d->tab[i]) {
        if (d->tab[i] == h) {
            return false;
        }
        i = (i + 1) & d->mask;
    }
    d->tab[i] = h;
    d->n++;
    return true;
}

/* ---------------------------------------------------------- guard buffer */
/* An n-byte window whose surroundings are monitored.  Under ASan the window
 * is exactly a heap block (red zones on both sides, byte-precise on the right);
 * elsewhere it sits between a 64-byte pre-guard and a `post`-byte post-guard
 * filled with a pattern that is verified after the call. */
typedef struct {
    uint8_t *base;
    uint8_t *p;
    size_t n;
    size_t post;
    uint8_t pat;
} gbuf_t;

#define GBUF_PRE 64
static inline uint8_t gpat(const gbuf_t *g, size_t i) {
    return (uint8_t)(g->pat + i * 37u);
}
static size_t g_gbuf_off = 0; /* start misalignment (0..15) applied to the next gbuf_alloc; the end stays exact */
static void gbuf_alloc(gbuf_t *g, size_t n, size_t post, uint8_t pat) {
    g->n = n;
    g->pat = pat;
    size_t off = g_gbuf_off;
#if VERIF_ASAN
    g->post = 0;
    g->base = h_alloc_check(malloc(off + n), 1); /* malloc(0) gives a 0-byte block with red zones */
    g->p = g->base + off;
    (void)post;
#else
    g->post = post;
    g->base = h_alloc_check(malloc(GBUF_PRE + off + n + post), 1);
    g->p = g->base + GBUF_PRE + off;
    for (size_t i = 0; i < off; i++) {
        g->base[GBUF_PRE + i] = 0x3D;
    }
    for (size_t i = 0; i < GBUF_PRE; i++) {
        g->base[i] = gpat(g, i);
    }
    for (size_t i = 0; i < post; i++) {
        g->p[n + i] = gpat(g, GBUF_PRE + i);
    }
#endif
    if (!g->base) {
        fprintf(stderr, "gbuf_alloc: out of memory (%zu)\n", n);
        exit(2);
    }
}
/* -1 if guards intact, else offset relative to p of the first damaged byte
 * (negative-1-based offsets for the pre-guard are reported as -2) */
static inline long gbuf_check(const gbuf_t *g) {
#if VERIF_ASAN
    (void)g;
    return -1;
#else
    for (size_t i = 0; i < GBUF_PRE; i++) {
        if (g->base[i] != gpat(g, i)) {
            return -2;
        }
    }
    for (size_t i = 0; i < g->post; i++) {
        if (g->p[g->n + i] != gpat(g, GBUF_PRE + i)) {
            return (long)(g->n + i);
        }
    }
    return -1;
#endif
}
static inline void gbuf_free(gbuf_t *g) {
    free(g->base);
    g->base = g->p = NULL;
}

/* exact-size heap copy of a byte string (for over-read detection) */
static inline uint8_t *exact_copy(const void *src, size_t n) {
    uint8_t *p = malloc(n ? n : 1);
#if VERIF_ASAN
    if (n == 0) {
        free(p);
        p = malloc(0);
    }
#endif
    if (n) {
        memcpy(p, src, n);
    }
    return p;
}

/* -------------------------------------------------------- crash handling */
static volatile int g_in_child = 0; /* forked fault-injection children report through their exit status */
static void crash_line(const char *kind) {
    char buf[640];
    if (g_in_child) {
        return;
    }
    int n = snprintf(buf, sizeof buf,
                     "\nCRASH case=%" PRIu64 " kind=%s ctx=%s sub=%s\n",
                     (uint64_t)g_case, kind, g_ctx ? g_ctx : "?", g_sub);
    if (n > 0) {
        ssize_t w = write(1, buf, (size_t)n);
        (void)w;
    }
}
static void crash_handler(int sig) {
    char kind[16];
    fflush(stdout);
    if (sig == SIGALRM) {
        strcpy(kind, "hang");
    } else {
        snprintf(kind, sizeof kind, "sig%d", sig);
    }
    crash_line(kind);
    _exit(sig == SIGALRM ? 4 : 3);
}
#if VERIF_ASAN
void __asan_on_error(void);
void __asan_on_error(void) {
    fflush(stdout);
    crash_line("asan");
}
#endif
static void install_handlers(void) {
    struct sigaction sa;
    memset(&sa, 0, sizeof sa);
    sa.sa_handler = crash_handler;
    sigaction(SIGABRT, &sa, NULL);
    sigaction(SIGALRM, &sa, NULL);
    sigaction(SIGFPE, &sa, NULL);
    sigaction(SIGILL, &sa, NULL);
#if !VERIF_ASAN && !VERIF_MSAN
    {
        static uint8_t altstack[65536];
        stack_t ss = {.ss_sp = altstack, .ss_size = sizeof altstack};
        sigaltstack(&ss, NULL);
        sa.sa_flags = SA_ONSTACK;
        sigaction(SIGSEGV, &sa, NULL);
        sigaction(SIGBUS, &sa, NULL);
    }
#endif
    setvbuf(stdout, NULL, _IOFBF, 1 << 16);
}

static void finish_run(uint64_t ncases) {
    for (int i = 0; i < g_nstats; i++) {
        printf("%s %s %" PRIu64 "\n", g_stats[i].ismax ? "MAX" : "STAT",
               g_stats[i].name, g_stats[i].v);
    }
    printf("STAT violations_reported %" PRIu64 "\n", g_nviol);
    printf("DONE cases=%" PRIu64 "\n", ncases);
    fflush(stdout);
}

/* Standard case loop.  run_case(idx, rng) executes one case.
 * Shards interleave: shard s runs global indices s, s+n, ... so that a
 * configuration that runs fewer shards still runs *the same* cases. */
#define CASE_LOOP(run_case_fn)                                                 \
    do {                                                                       \
        uint64_t _n = 0;                                                       \
        for (uint64_t _i = g_from; _i < g_count; _i++) {                       \
            if (g_only >= 0 && _i != (uint64_t)g_only)                         \
                continue;                                                      \
            rng_t _r;                                                          \
            g_case = _i;                                                       \
            g_sub[0] = 0;                                                      \
            rng_seed(&_r, case_seed(_i));                                      \
            run_case_fn(_i, &_r);                                              \
            _n++;                                                              \
        }                                                                      \
        finish_run(_n);                                                        \
    } while (0)

#endif
