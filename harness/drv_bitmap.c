/* drv_bitmap.c — C08: the bitmap behaves as a set of 16-bit integers under any history.
 * One case = one history over up to 8 live objects, each shadowed by a 65536-bit model.
 * Linked with wrap_alloc.c: every block allocated during a history must be freed at its end. */
#include "common.h"
#include "gen.h"
#include "varintBitmap.h"
#include "wrap_alloc.h"

#define NSLOT 8
typedef struct {
    uint8_t bits[8192];
    uint32_t card;
} mset;
static inline bool m_has(const mset *m, uint32_t v) { return (m->bits[v >> 3] >> (v & 7)) & 1; }
static inline bool m_add(mset *m, uint32_t v) {
    if (m_has(m, v)) return false;
    m->bits[v >> 3] |= (uint8_t)(1u << (v & 7));
    m->card++;
    return true;
}
static inline bool m_del(mset *m, uint32_t v) {
    if (!m_has(m, v)) return false;
    m->bits[v >> 3] &= (uint8_t)~(1u << (v & 7));
    m->card--;
    return true;
}
static void m_recount(mset *m) {
    uint32_t c = 0;
    for (int i = 0; i < 8192; i++) c += (uint32_t)__builtin_popcount(m->bits[i]);
    m->card = c;
}

static varintBitmap *OBJ[NSLOT];
static mset *MOD[NSLOT];
static uint64_t g_trans[3][3];
static uint64_t g_optype[24][3];
static distinct_t g_triples;
static int g_step;
static const char *g_opname = "";
static char g_opargs[128];
static const char *const TN[3] = {"ARRAY", "BITMAP", "RUNS"};

static int typeof_(const varintBitmap *vb) {
    varintBitmapStats st;
    varintBitmapGetStats(vb, &st);
    return (int)st.type;
}
#define BFAIL(cls, ...)                                                                                                \
    do {                                                                                                               \
        char _k[200], _d[400];                                                                                         \
        snprintf(_k, sizeof _k, "C08:%s:%s", g_opname, cls);                                                           \
        snprintf(_d, sizeof _d, __VA_ARGS__);                                                                          \
        viol(_k, "step %d op %s(%s): %s", g_step, g_opname, g_opargs, _d);                                             \
        return false;                                                                                                  \
    } while (0)

/* light check: cardinality, emptiness, a few memberships */
static bool check_light(int s, rng_t *r, const uint32_t *touched, int nt) {
    const varintBitmap *vb = OBJ[s];
    const mset *m = MOD[s];
    if (varintBitmapCardinality(vb) != m->card) BFAIL("cardinality-differs-from-set", "slot %d container %s library %u model %u", s, TN[typeof_(vb)], varintBitmapCardinality(vb), m->card);
    if (varintBitmapIsEmpty(vb) != (m->card == 0)) BFAIL("emptiness-differs-from-set", "slot %d model card %u", s, m->card);
    for (int i = 0; i < nt + 6; i++) {
        uint32_t v = i < nt ? touched[i] : (uint32_t)rng_below(r, 65536);
        for (int d = -1; d <= 1; d++) {
            uint32_t w = v + (uint32_t)d;
            if (w > 65535) continue;
            if (varintBitmapContains(vb, (uint16_t)w) != m_has(m, w)) BFAIL("membership-differs-from-set", "slot %d container %s value %u library %d model %d", s, TN[typeof_(vb)], w, varintBitmapContains(vb, (uint16_t)w), m_has(m, w));
        }
    }
    STAT_INC("c08_light_checks");
    return true;
}
/* full check: array export and iteration equal the model's ascending member list */
static bool check_full(int s, bool all_contains) {
    const varintBitmap *vb = OBJ[s];
    const mset *m = MOD[s];
    size_t cap = VERIF_ASAN ? m->card : 65536 + 8;
    uint16_t *out = malloc(cap * 2 ? cap * 2 : 1);
    g_ctx = "varintBitmapToArray";
    uint32_t n = varintBitmapToArray(vb, out);
    if (n != m->card) {
        free(out);
        BFAIL("array-export-count-differs-from-set", "slot %d container %s exported %u model %u", s, TN[typeof_(vb)], n, m->card);
    }
    uint32_t k = 0;
    for (uint32_t v = 0; v < 65536; v++) {
        if (m_has(m, v)) {
            if (out[k] != v) {
                uint16_t got = out[k];
                free(out);
                BFAIL("array-export-differs-from-set", "slot %d container %s position %u library %u model %u", s, TN[typeof_(vb)], k, got, v);
            }
            k++;
        }
    }
    /* iteration: ascending, duplicate free, exactly the members */
    g_ctx = "varintBitmapIteratorNext";
    varintBitmapIterator it = varintBitmapCreateIterator(vb);
    uint32_t i = 0;
    while (varintBitmapIteratorNext(&it)) {
        if (i >= n || it.currentValue != out[i]) {
            free(out);
            BFAIL("iteration-differs-from-set", "slot %d container %s position %u", s, TN[typeof_(vb)], i);
        }
        i++;
        if (i > 65536) break;
    }
    free(out);
    if (i != n) BFAIL("iteration-differs-from-set", "slot %d iterated %u of %u", s, i, n);
    if (all_contains) {
        g_ctx = "varintBitmapContains";
        for (uint32_t v = 0; v < 65536; v++) {
            if (varintBitmapContains(vb, (uint16_t)v) != m_has(m, v)) BFAIL("membership-differs-from-set", "slot %d container %s value %u", s, TN[typeof_(vb)], v);
        }
        STAT_INC("c08_full_membership_sweeps");
    }
    STAT_INC("c08_full_checks");
    return true;
}

enum { OP_ADD, OP_REMOVE, OP_ADDRANGE, OP_REMOVERANGE, OP_CLEAR, OP_CLONE, OP_ADDMANY, OP_OR, OP_AND, OP_XOR, OP_ANDNOT, OP_CODEC, OP_RECREATE, OP_FROMRUNS, OP_N };
static const char *const OPN[OP_N] = {"varintBitmapAdd", "varintBitmapRemove", "varintBitmapAddRange", "varintBitmapRemoveRange", "varintBitmapClear", "varintBitmapClone", "varintBitmapAddMany", "varintBitmapOr", "varintBitmapAnd", "varintBitmapXor", "varintBitmapAndNot", "varintBitmapEncode+Decode", "varintBitmapFree+Create", "varintBitmapDecode(run-encoded)"};

static void note_transition(int op, int before, int after) {
    if (before != after) g_trans[before][after]++;
    g_optype[op][after]++;
    if (distinct_add(&g_triples, (uint64_t)(before * 1000 + op * 10 + after) + 1)) STAT_INC("c08_distinct_type_op_type_triples");
}

static void history(uint64_t idx, rng_t *r) {
    (void)idx;
    wa_forget_all();
    wa_arm(0);
    for (int s = 0; s < NSLOT; s++) {
        OBJ[s] = NULL;
        MOD[s] = NULL;
    }
    int nlive = 2 + (int)rng_below(r, 3);
    for (int s = 0; s < nlive; s++) {
        OBJ[s] = varintBitmapCreate();
        MOD[s] = calloc(1, sizeof(mset));
    }
    int nops = 50 + (int)rng_below(r, 351);
    /* a window of values so that cardinality can hover around 4096 */
    uint32_t wbase = (uint32_t)rng_below(r, 65536 - 9000);
    uint32_t wlen = rng_chance(r, 1, 2) ? 4300 : 200 + (uint32_t)rng_below(r, 8800);
    bool ok = true;
    uint32_t touched[8];
    char oplog[1400];
    size_t oplen = 0;
    oplog[0] = 0;
    for (g_step = 0; g_step < nops && ok; g_step++) {
        int s = (int)rng_below(r, (uint64_t)nlive);
        int op = (int)rng_below(r, OP_N);
        /* weight the point operations */
        if (rng_chance(r, 1, 2)) op = rng_chance(r, 1, 2) ? OP_ADD : OP_REMOVE;
        if (rng_chance(r, 1, 12)) op = OP_ADDMANY;
        if (rng_chance(r, 1, 12)) op = OP_ADDRANGE;
        if (rng_chance(r, 1, 25)) op = OP_FROMRUNS;
        int nt = 0;
        int before = typeof_(OBJ[s]);
        g_opname = OPN[op];
        g_ctx = OPN[op];
        g_opargs[0] = 0;
        switch (op) {
        case OP_ADD:
        case OP_REMOVE: {
            uint32_t v = rng_chance(r, 5, 6) ? wbase + (uint32_t)rng_below(r, wlen) : (uint32_t)rng_below(r, 65536);
            if (rng_chance(r, 1, 50)) v = rng_chance(r, 1, 2) ? 0 : 65535;
            snprintf(g_opargs, sizeof g_opargs, "slot %d [%s card %u], %u", s, TN[before], MOD[s]->card, v);
            bool lib = op == OP_ADD ? varintBitmapAdd(OBJ[s], (uint16_t)v) : varintBitmapRemove(OBJ[s], (uint16_t)v);
            bool mod = op == OP_ADD ? m_add(MOD[s], v) : m_del(MOD[s], v);
            touched[nt++] = v;
            if (lib != mod) {
                char k[200];
                snprintf(k, sizeof k, "C08:%s:reported-change-differs-from-set", g_opname);
                viol(k, "step %d %s(%s) returned %d, set changed %d", g_step, g_opname, g_opargs, lib, mod);
                ok = false;
            }
            break;
        }
        case OP_ADDRANGE:
        case OP_REMOVERANGE: {
            uint32_t lo, hi;
            static uint32_t lastlo[NSLOT], lasthi[NSLOT];
            if (g_step == 0) memset(lasthi, 0, sizeof lasthi);
            unsigned pick = (unsigned)rng_below(r, 8);
            if (pick >= 6 && lasthi[s] > lastlo[s]) {
                /* a range placed relative to the previous range of this object: overlapping, touching, one-value gap */
                if (pick == 6) {
                    lo = lasthi[s] + (uint32_t)rng_below(r, 4) - 1;
                    hi = lo + 1 + (uint32_t)rng_below(r, rng_chance(r, 1, 2) ? 50 : 6000);
                } else {
                    hi = lastlo[s] + (uint32_t)rng_below(r, 4) - 2;
                    uint32_t len = 1 + (uint32_t)rng_below(r, rng_chance(r, 1, 2) ? 50 : 6000);
                    lo = hi > len ? hi - len : 0;
                }
                if ((int32_t)lo < 0) lo = 0;
                STAT_INC("c08_ranges_adjacent_to_previous_range");
            } else
            switch (pick % 6) {
            case 0: lo = wbase + (uint32_t)rng_below(r, wlen); hi = lo + (uint32_t)rng_below(r, 100); break;          /* short */
            case 1: lo = wbase; hi = wbase + 3990 + (uint32_t)rng_below(r, 220); break;                                   /* around 4096 */
            case 2: lo = (uint32_t)rng_below(r, 30000); hi = lo + 4097 + (uint32_t)rng_below(r, 30000); break;           /* long (> 4096) */
            case 3: lo = 0; hi = (uint32_t)rng_below(r, 65536); break;                                                    /* from 0 */
            case 4: lo = (uint32_t)rng_below(r, 65536); hi = 65535; break;                                                /* to the top */
            default: lo = (uint32_t)rng_below(r, 65536); hi = lo - (uint32_t)rng_below(r, 3); break;                      /* empty / inverted */
            }
            if (hi > 65535) hi = 65535;
            if (lo > 65535) lo = 65535;
            if (op == OP_ADDRANGE && hi > lo) {
                lastlo[s] = lo;
                lasthi[s] = hi;
            }
            snprintf(g_opargs, sizeof g_opargs, "slot %d [%s card %u], [%u,%u)", s, TN[before], MOD[s]->card, lo, hi);
            if (op == OP_ADDRANGE) {
                varintBitmapAddRange(OBJ[s], (uint16_t)lo, (uint16_t)hi);
                for (uint32_t v = lo; v < hi; v++) m_add(MOD[s], v);
                if (hi > lo && hi - lo > 4096) {
                    STAT_INC(MOD[s]->card > hi - lo ? "c08_long_range_on_nonempty" : "c08_long_range_on_empty");
                    if (before == VARINT_BITMAP_RUNS) STAT_INC("c08_long_range_on_runs_container");
                }
            } else {
                /* keep removal cost bounded */
                if (hi > lo && hi - lo > 6000) hi = lo + 6000;
                snprintf(g_opargs, sizeof g_opargs, "slot %d [%s card %u], [%u,%u)", s, TN[before], MOD[s]->card, lo, hi);
                varintBitmapRemoveRange(OBJ[s], (uint16_t)lo, (uint16_t)hi);
                for (uint32_t v = lo; v < hi; v++) m_del(MOD[s], v);
            }
            touched[nt++] = lo;
            touched[nt++] = hi;
            if (hi > lo) touched[nt++] = lo + (uint32_t)rng_below(r, hi - lo);
            break;
        }
        case OP_CLEAR:
            snprintf(g_opargs, sizeof g_opargs, "slot %d [%s card %u]", s, TN[before], MOD[s]->card);
            varintBitmapClear(OBJ[s]);
            memset(MOD[s], 0, sizeof(mset));
            break;
        case OP_ADDMANY: {
            uint32_t cnt = rng_chance(r, 1, 2) ? 4000 + (uint32_t)rng_below(r, 201) : (uint32_t)rng_below(r, 300);
            uint16_t *vals = malloc(cnt * 2 ? cnt * 2 : 1);
            for (uint32_t i = 0; i < cnt; i++) vals[i] = (uint16_t)(wbase + rng_below(r, wlen));
            unsigned shape = (unsigned)rng_below(r, 4);
            if (shape && cnt >= 2) {
                /* structured batches: ascending; ascending above the current maximum; ascending except the tail */
                if (cnt > 400 && rng_chance(r, 1, 2)) cnt = 16 + (uint32_t)rng_below(r, 300);
                uint32_t start = wbase;
                if (shape >= 2) { /* above every current member */
                    start = 0;
                    for (int v = 65535; v >= 0; v--) if (m_has(MOD[s], (uint32_t)v)) { start = (uint32_t)v + 1; break; }
                }
                uint32_t v = start;
                for (uint32_t i = 0; i < cnt; i++) {
                    vals[i] = (uint16_t)(v > 65535 ? 65535 : v);
                    v += 1 + (uint32_t)rng_below(r, 4);
                }
                if (shape == 3) { /* the last element (or two) out of order / repeated */
                    vals[cnt - 1] = rng_chance(r, 1, 2) ? vals[rng_below(r, cnt - 1)] : (uint16_t)(vals[0] > 3 ? vals[0] - 1 - rng_below(r, 3) : 0);
                    if (rng_chance(r, 1, 3) && cnt > 3) vals[cnt - 2] = vals[cnt - 3];
                }
                STAT_INC("c08_structured_addmany_batches");
            }
            if (rng_chance(r, 1, 6)) {
                /* very large batches: the whole universe (exactly 65536 new members when the set is empty), all but a
                 * few values, more values than the universe holds (duplicates), in order or permuted */
                static const uint32_t bc[] = {65535, 65536, 65536, 65537, 70000, 100000, 131072, 300000};
                free(vals);
                cnt = bc[rng_below(r, 8)];
                vals = malloc(cnt * 2);
                unsigned big = (unsigned)rng_below(r, 4);
                uint32_t rot = (uint32_t)rng_below(r, 65536);
                uint32_t mul = big == 1 ? 1 : (uint32_t)(rng_below(r, 32768) * 2 + 1); /* odd multiplier: a permutation of 0..65535 */
                for (uint32_t i = 0; i < cnt; i++) {
                    if (big == 3) vals[i] = (uint16_t)rng_next(r);                 /* random with duplicates */
                    else vals[i] = (uint16_t)((i + rot) * mul);                    /* every value once per 65536 positions */
                }
                if (big == 2 && cnt >= 65536) { /* all but a few */
                    uint16_t hole = (uint16_t)rng_next(r);
                    for (uint32_t i = 0; i < cnt; i++) if (vals[i] == hole) vals[i] = (uint16_t)(hole ^ 1);
                }
                if (rng_chance(r, 1, 2)) { /* onto an empty set */
                    varintBitmapClear(OBJ[s]);
                    memset(MOD[s], 0, sizeof(mset));
                }
                STAT_INC("c08_universe_sized_addmany_batches");
            }
            snprintf(g_opargs, sizeof g_opargs, "slot %d [%s card %u], %u values in [%u,%u)", s, TN[before], MOD[s]->card, cnt, wbase, wbase + wlen);
            varintBitmapAddMany(OBJ[s], vals, cnt);
            for (uint32_t i = 0; i < cnt; i++) m_add(MOD[s], vals[i]);
            if (MOD[s]->card == 65536) STAT_INC("c08_full_universe_states");
            if (cnt) touched[nt++] = vals[0];
            free(vals);
            break;
        }
        case OP_CLONE:
        case OP_OR:
        case OP_AND:
        case OP_XOR:
        case OP_ANDNOT: {
            int a = s, b = (int)rng_below(r, (uint64_t)nlive);
            int dstslot = nlive < NSLOT ? nlive : (int)rng_below(r, (uint64_t)nlive);
            snprintf(g_opargs, sizeof g_opargs, "slot %d [%s card %u], slot %d [%s card %u] -> slot %d", a, TN[before], MOD[a]->card, b, TN[typeof_(OBJ[b])], MOD[b]->card, dstslot);
            varintBitmap *res;
            mset *rm = calloc(1, sizeof(mset));
            switch (op) {
            case OP_CLONE: res = varintBitmapClone(OBJ[a]); memcpy(rm, MOD[a], sizeof(mset)); break;
            case OP_OR: res = varintBitmapOr(OBJ[a], OBJ[b]); for (int i = 0; i < 8192; i++) rm->bits[i] = MOD[a]->bits[i] | MOD[b]->bits[i]; break;
            case OP_AND: res = varintBitmapAnd(OBJ[a], OBJ[b]); for (int i = 0; i < 8192; i++) rm->bits[i] = MOD[a]->bits[i] & MOD[b]->bits[i]; break;
            case OP_XOR: res = varintBitmapXor(OBJ[a], OBJ[b]); for (int i = 0; i < 8192; i++) rm->bits[i] = MOD[a]->bits[i] ^ MOD[b]->bits[i]; break;
            default: res = varintBitmapAndNot(OBJ[a], OBJ[b]); for (int i = 0; i < 8192; i++) rm->bits[i] = MOD[a]->bits[i] & (uint8_t)~MOD[b]->bits[i]; break;
            }
            m_recount(rm);
            if (!res) {
                char k[200];
                snprintf(k, sizeof k, "C08:%s:returned-null-without-allocation-failure", g_opname);
                viol(k, "step %d %s(%s)", g_step, g_opname, g_opargs);
                free(rm);
                ok = false;
                break;
            }
            /* operands unchanged (cheap identity first, full state next) */
            if (dstslot < nlive && (dstslot == a || dstslot == b)) {
                /* result replaces an operand: check operands before replacing */
                ok = check_full(a, false) && check_full(b, false);
            }
            if (dstslot == nlive) {
                nlive++;
            } else {
                varintBitmapFree(OBJ[dstslot]);
                free(MOD[dstslot]);
            }
            OBJ[dstslot] = res;
            MOD[dstslot] = rm;
            if (ok) ok = check_full(dstslot, false);
            if (ok && a != dstslot) ok = check_full(a, false);
            if (ok && b != dstslot) ok = check_full(b, false);
            STAT_INC("c08_set_algebra_ops");
            note_transition(op, before, typeof_(OBJ[dstslot]));
            s = dstslot;
            before = typeof_(OBJ[s]);
            break;
        }
        case OP_CODEC: {
            snprintf(g_opargs, sizeof g_opargs, "slot %d [%s card %u]", s, TN[before], MOD[s]->card);
            gbuf_t gb;
            /* varintBitmapSizeBytes (in-memory size) is never smaller than the serialised form */
            size_t cap = varintBitmapSizeBytes(OBJ[s]) + 16;
            gbuf_alloc(&gb, cap, 256, 0x6B);
            g_ctx = "varintBitmapEncode";
            size_t nb = varintBitmapEncode(OBJ[s], gb.p);
            if (gbuf_check(&gb) != -1 || nb == 0 || nb > cap) {
                viol("C08:varintBitmapEncode:encoded-size-out-of-range", "step %d returned %zu", g_step, nb);
                ok = false;
                gbuf_free(&gb);
                break;
            }
            uint8_t *enc = exact_copy(gb.p, nb);
            g_ctx = "varintBitmapDecode";
            varintBitmap *d = varintBitmapDecode(enc, nb);
            free(enc);
            gbuf_free(&gb);
            if (!d) {
                viol("C08:varintBitmapDecode:returned-null-for-valid-encoding", "step %d %s", g_step, g_opargs);
                ok = false;
                break;
            }
            varintBitmapFree(OBJ[s]);
            OBJ[s] = d;
            STAT_INC("c08_decodes");
            {
                static const char *const dn[3] = {"c08_decode_of_ARRAY", "c08_decode_of_BITMAP", "c08_decode_of_RUNS"};
                stat_add(dn[before], 1);
            }
            ok = check_full(s, false);
            break;
        }
        case OP_FROMRUNS: {
            /* the same set deserialised from its run-length serialisation (type 2: cardinality, run count,
             * [start,length] pairs): run containers with many runs and any cardinality */
            snprintf(g_opargs, sizeof g_opargs, "slot %d [%s card %u]", s, TN[before], MOD[s]->card);
            uint32_t nruns = 0;
            for (uint32_t v = 0; v < 65536; v++) if (m_has(MOD[s], v) && (v == 0 || !m_has(MOD[s], v - 1))) nruns++;
            if (nruns > 2500 || (MOD[s]->card == 65536)) break;
            size_t nb = 1 + 4 + 4 + (size_t)nruns * 4;
            uint8_t *enc = malloc(nb);
            enc[0] = 2;
            memcpy(enc + 1, &MOD[s]->card, 4);
            memcpy(enc + 5, &nruns, 4);
            uint32_t k = 0;
            for (uint32_t v = 0; v < 65536;) {
                if (!m_has(MOD[s], v)) { v++; continue; }
                uint32_t e = v;
                while (e < 65536 && m_has(MOD[s], e)) e++;
                uint16_t st = (uint16_t)v, ln = (uint16_t)(e - v);
                memcpy(enc + 9 + k * 4, &st, 2);
                memcpy(enc + 9 + k * 4 + 2, &ln, 2);
                k++;
                v = e;
            }
            g_ctx = "varintBitmapDecode";
            varintBitmap *d = varintBitmapDecode(enc, nb);
            free(enc);
            if (!d) {
                viol("C08:varintBitmapDecode:returned-null-for-valid-encoding", "step %d run-encoded set of %u members in %u runs", g_step, MOD[s]->card, nruns);
                ok = false;
                break;
            }
            varintBitmapFree(OBJ[s]);
            OBJ[s] = d;
            STAT_INC("c08_objects_from_run_encodings");
            if (nruns > 1) STAT_INC("c08_multi_run_containers");
            ok = check_full(s, false);
            break;
        }
        case OP_RECREATE:
            snprintf(g_opargs, sizeof g_opargs, "slot %d", s);
            varintBitmapFree(OBJ[s]);
            OBJ[s] = varintBitmapCreate();
            memset(MOD[s], 0, sizeof(mset));
            break;
        }
        if (!ok) break;
        int after = typeof_(OBJ[s]);
        if (g_step < 14 && want_sample() && oplen + 100 < sizeof oplog) {
            oplen += (size_t)snprintf(oplog + oplen, sizeof oplog - oplen, "%s\"%s(%.60s) -> %s card %u\"", oplen ? "," : "", g_opname + 12, g_opargs, TN[after], MOD[s]->card);
        }
        if (op != OP_CLONE && op < OP_OR) note_transition(op, before, after);
        if (op >= OP_CODEC) note_transition(op, before, after);
        ok = check_light(s, r, touched, nt);
        if (ok && rng_chance(r, 1, 24)) {
            /* the container "optimisation" entry point must never change the set */
            g_opname = "varintBitmapOptimize";
            snprintf(g_opargs, sizeof g_opargs, "slot %d [%s card %u]", s, TN[after], MOD[s]->card);
            varintBitmapOptimize(OBJ[s]);
            ok = check_full(s, false);
            STAT_INC("c08_optimize_calls");
        }
        if (ok && (before != after || (g_step & 7) == 7 || op == OP_ADDRANGE || op == OP_ADDMANY || op == OP_CLEAR)) ok = check_full(s, false);
        STAT_INC("c08_operations");
    }
    /* end of history: full state of every object, then release everything */
    for (int s = 0; s < nlive && ok; s++) ok = check_full(s, (idx % 10) == 0);
    g_opname = "end-of-history";
    for (int s = 0; s < nlive; s++) {
        varintBitmapFree(OBJ[s]);
        free(MOD[s]);
        OBJ[s] = NULL;
    }
    wa_disarm();
    if (ok && wa_live_blocks() != 0) {
        char d[300];
        wa_describe_live(d, sizeof d, 3);
        viol("C08:history:memory-still-allocated-after-all-objects-freed", "%lu block(s) live after %d operations: %s", wa_live_blocks(), g_step, d);
    }
    wa_forget_all();
    if (ok) STAT_INC("distinct_nontrivial");
    if (want_sample()) sample("{\"history_ops\":%d,\"objects\":%d,\"window\":[%u,%u],\"first_operations\":[%s]}", nops, nlive, wbase, wbase + wlen, oplog);
}

int main(int argc, char **argv) {
    parse_args(argc, argv);
    install_handlers();
    gen_init();
    distinct_init(&g_triples, 10);
    CASE_LOOP(history);
    for (int a = 0; a < 3; a++)
        for (int b = 0; b < 3; b++)
            if (g_trans[a][b]) printf("STAT transition.%s_to_%s %" PRIu64 "\n", TN[a], TN[b], g_trans[a][b]);
    fflush(stdout);
    return 0;
}
